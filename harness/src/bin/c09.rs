//! C09 — terminal links always form a symmetric matching; connect/disconnect never panic; a
//! terminal's state read is the mean of its own and its partner's latest states (or whichever
//! exists), its command read the newer of the two commands, its combined read both with the state's
//! stamp when there is one.
//!
//! Observation is purely behavioural (the partner link is a private field): terminal k holds a state
//! whose components are distinct powers of two, so a state read equals either the terminal's own
//! label (no partner) or the exact mean of its own label and exactly one other terminal's label
//! (that terminal is the partner). The observed partner relation is rebuilt from the reads alone and
//! compared with a model that is a literal transcription of the statement (set of unordered pairs).
//! A second, independent reconstruction goes through the command reads ("newer of the two").
use rrtk::*;
use rrtk_mon::*;
use std::cell::RefCell;
use std::collections::{BTreeMap, BTreeSet, VecDeque};

type Term<'a> = RefCell<Terminal<'a, E>>;

#[derive(Clone, Copy, Debug, PartialEq, Eq, Hash, PartialOrd, Ord)]
enum Op {
    Connect(usize, usize),
    Disconnect(usize),
}
impl Op {
    fn kind(&self) -> &'static str {
        match self {
            Op::Connect(..) => "connect",
            Op::Disconnect(..) => "disconnect",
        }
    }
}
/// The model of the statement: a set of unordered pairs (stored as (lo, hi)).
#[derive(Clone, Debug, PartialEq, Eq, Hash, PartialOrd, Ord)]
struct Model {
    n: usize,
    pairs: BTreeSet<(usize, usize)>,
}
impl Model {
    fn new(n: usize) -> Model {
        Model { n, pairs: BTreeSet::new() }
    }
    fn remove_containing(&mut self, a: usize) {
        self.pairs.retain(|&(x, y)| x != a && y != a);
    }
    fn apply(&mut self, op: Op) {
        match op {
            // connect(a,b): remove every pair containing a or b, add {a,b}
            Op::Connect(a, b) => {
                self.remove_containing(a);
                self.remove_containing(b);
                self.pairs.insert((a.min(b), a.max(b)));
            }
            // disconnect(a): remove the pair containing a
            Op::Disconnect(a) => self.remove_containing(a),
        }
    }
    fn partner(&self, a: usize) -> Option<usize> {
        for &(x, y) in &self.pairs {
            if x == a {
                return Some(y);
            }
            if y == a {
                return Some(x);
            }
        }
        None
    }
    fn partners(&self) -> Vec<Option<usize>> {
        (0..self.n).map(|k| self.partner(k)).collect()
    }
    /// Relation between the operands of `op` in this (pre-operation) matching; part of signatures.
    fn relation(&self, op: Op) -> &'static str {
        match op {
            Op::Connect(a, b) => match (self.partner(a), self.partner(b)) {
                (Some(x), _) if x == b => "already-linked-to-each-other",
                (None, None) => "both-unlinked",
                (Some(_), None) => "first-linked-elsewhere",
                (None, Some(_)) => "second-linked-elsewhere",
                (Some(_), Some(_)) => "both-linked-elsewhere",
            },
            Op::Disconnect(a) => match self.partner(a) {
                Some(_) => "linked",
                None => "unlinked",
            },
        }
    }
    fn key(&self) -> Vec<(usize, usize)> {
        self.pairs.iter().cloned().collect()
    }
}
fn all_ops(n: usize) -> Vec<Op> {
    let mut v = Vec::new();
    for a in 0..n {
        for b in 0..n {
            if a != b {
                v.push(Op::Connect(a, b));
            }
        }
    }
    for a in 0..n {
        v.push(Op::Disconnect(a));
    }
    v
}
/// Execute one operation on the real terminals under panic capture.
fn exec<'a>(ts: &'a [Term<'a>], op: Op) -> Result<(), String> {
    match op {
        Op::Connect(a, b) => catch(|| connect(&ts[a], &ts[b])),
        Op::Disconnect(a) => catch(|| ts[a].borrow_mut().disconnect()),
    }
}
fn write_state(t: &Term<'_>, d: Datum<State>) -> Result<NothingOrError<E>, String> {
    catch(|| Settable::<Datum<State>, E>::set(&mut *t.borrow_mut(), d))
}
fn write_command(t: &Term<'_>, d: Datum<Command>) -> Result<NothingOrError<E>, String> {
    catch(|| Settable::<Datum<Command>, E>::set(&mut *t.borrow_mut(), d))
}
fn read_state(t: &Term<'_>) -> Result<Out<State>, String> {
    catch(|| <Terminal<'_, E> as Getter<State, E>>::get(&t.borrow()))
}
fn read_command(t: &Term<'_>) -> Result<Out<Command>, String> {
    catch(|| <Terminal<'_, E> as Getter<Command, E>>::get(&t.borrow()))
}
fn read_combined(t: &Term<'_>) -> Result<Out<TerminalData>, String> {
    catch(|| <Terminal<'_, E> as Getter<TerminalData, E>>::get(&t.borrow()))
}
fn p2(e: i32) -> f32 {
    (2.0f64).powi(e) as f32
}
/// State label with exponent e: three distinct powers of two (all means of two labels are exact).
fn st_label(e: i32) -> State {
    State::new_raw(p2(e), p2(e + 8), -p2(e + 16))
}
fn mean_exact(a: &State, b: &State) -> State {
    let m = |x: f32, y: f32| ((x as f64 + y as f64) / 2.0) as f32;
    State::new_raw(m(a.position, b.position), m(a.velocity, b.velocity), m(a.acceleration, b.acceleration))
}
/// Command label of terminal k (distinct kind/value per terminal).
fn cmd_label(k: usize) -> Command {
    let v = 100.0 + k as f32;
    match k % 3 {
        0 => Command::Position(v),
        1 => Command::Velocity(-v),
        _ => Command::Acceleration(v + 0.5),
    }
}
#[derive(Clone, Debug)]
struct Labels {
    exps: Vec<i32>,
    stamps: Vec<i64>,
}
impl Labels {
    fn plain(n: usize) -> Labels {
        // position 2^k, timestamp k
        Labels { exps: (0..n as i32).collect(), stamps: (0..n as i64).collect() }
    }
    fn datum(&self, k: usize) -> Datum<State> {
        Datum::new(Time(self.stamps[k]), st_label(self.exps[k]))
    }
}
struct Ctx<'r> {
    rep: &'r mut Report,
    sub: &'static str,
    case: u64,
}
impl Ctx<'_> {
    fn bad(&mut self, sig: String, detail: String) {
        self.rep.violation(&sig, self.sub, self.case, detail);
    }
}
fn write_labels<'a>(ctx: &mut Ctx, ts: &'a [Term<'a>], lab: &Labels, hist: &dyn Fn() -> String) -> bool {
    for k in 0..ts.len() {
        match write_state(&ts[k], lab.datum(k)) {
            Ok(Ok(())) => {}
            Ok(Err(e)) => {
                ctx.bad("C09/write/state/returned-err".into(), format!("set(state) on terminal {} returned {:?}; {}", k, e, hist()));
                return false;
            }
            Err(p) => {
                ctx.bad("C09/panic/write/state".into(), format!("set(state) on terminal {} panicked: {}; {}", k, p, hist()));
                return false;
            }
        }
    }
    true
}
/// Rebuild the partner relation from state reads alone. None = a read could not be obtained or decoded
/// (already reported).
fn observe_by_state<'a>(ctx: &mut Ctx, ts: &'a [Term<'a>], lab: &Labels, hist: &dyn Fn() -> String) -> Option<(Vec<Option<usize>>, Vec<Datum<State>>)> {
    let n = ts.len();
    let mut seen = Vec::with_capacity(n);
    let mut raw = Vec::with_capacity(n);
    for k in 0..n {
        ctx.rep.eval();
        let d = match read_state(&ts[k]) {
            Ok(Ok(Some(d))) => d,
            Ok(other) => {
                ctx.bad("C09/observe/state-read-absent".to_string(), format!("terminal {} holds state {:?} but its state read is {:?}; {}", k, lab.datum(k), other, hist()));
                return None;
            }
            Err(p) => {
                ctx.bad("C09/panic/read/state".to_string(), format!("state read of terminal {} panicked: {}; {}", k, p, hist()));
                return None;
            }
        };
        let own = lab.datum(k);
        let mut found: Option<Option<usize>> = None;
        if d.time == own.time && ssame(&d.value, &own.value) {
            found = Some(None);
        } else {
            for j in 0..n {
                if j == k {
                    continue;
                }
                let oth = lab.datum(j);
                if ssame(&d.value, &mean_exact(&own.value, &oth.value)) {
                    // the partner is identified by the value; the stamp must be the max of the two
                    ctx.rep.eval();
                    if d.time != own.time.max(oth.time) {
                        ctx.bad("C09/read/state/stamp/labelled".to_string(), format!("terminal {} (stamp {:?}) reads the mean with terminal {} (stamp {:?}) but stamped {:?}; {}", k, own.time, j, oth.time, d.time, hist()));
                    }
                    found = Some(Some(j));
                    break;
                }
            }
        }
        match found {
            Some(p) => seen.push(p),
            None => {
                ctx.bad("C09/observe/state-undecodable".to_string(), format!("terminal {} (own {:?}) reads {:?}: neither its own state nor the mean with exactly one other terminal's state (labels {:?}); {}", k, own, d, lab, hist()));
                return None;
            }
        }
        raw.push(d);
    }
    Some((seen, raw))
}
/// Rebuild the partner relation from command reads: round 1 stamps ascending in k (a read shows the
/// higher-numbered of {k, partner}), round 2 stamps descending (shows the lower-numbered).
fn observe_by_command<'a>(ctx: &mut Ctx, ts: &'a [Term<'a>], base: i64, hist: &dyn Fn() -> String) -> Option<(Vec<Option<usize>>, Vec<Datum<Command>>)> {
    let n = ts.len();
    let mut shown: Vec<[usize; 2]> = vec![[0, 0]; n];
    let mut last_reads = Vec::new();
    for round in 0..2 {
        let stamp = |k: usize| if round == 0 { base + k as i64 } else { base + 1000 - k as i64 };
        for k in 0..n {
            match write_command(&ts[k], Datum::new(Time(stamp(k)), cmd_label(k))) {
                Ok(Ok(())) => {}
                Ok(Err(e)) => {
                    ctx.bad("C09/write/command/returned-err".into(), format!("set(command) on terminal {} returned {:?}; {}", k, e, hist()));
                    return None;
                }
                Err(p) => {
                    ctx.bad("C09/panic/write/command".into(), format!("set(command) on terminal {} panicked: {}; {}", k, p, hist()));
                    return None;
                }
            }
        }
        last_reads.clear();
        for k in 0..n {
            ctx.rep.eval();
            let d = match read_command(&ts[k]) {
                Ok(Ok(Some(d))) => d,
                Ok(other) => {
                    ctx.bad("C09/observe/command-read-absent".to_string(), format!("terminal {} holds a command but its command read is {:?}; {}", k, other, hist()));
                    return None;
                }
                Err(p) => {
                    ctx.bad("C09/panic/read/command".to_string(), format!("command read of terminal {} panicked: {}; {}", k, p, hist()));
                    return None;
                }
            };
            let who = (0..n).find(|&j| csame(&d.value, &cmd_label(j)) && d.time == Time(stamp(j)));
            match who {
                Some(j) => shown[k][round] = j,
                None => {
                    ctx.bad("C09/observe/command-undecodable".to_string(), format!("terminal {} reads command {:?}, which is no terminal's (command, stamp) of round {}; {}", k, d, round, hist()));
                    return None;
                }
            }
            last_reads.push(d);
        }
    }
    let mut seen = Vec::with_capacity(n);
    for k in 0..n {
        let [hi, lo] = shown[k];
        ctx.rep.eval();
        // linked to j>k: (j,k); linked to j<k: (k,j); unlinked: (k,k)
        let p = if hi == k && lo == k {
            None
        } else if hi > k && lo == k {
            Some(hi)
        } else if hi == k && lo < k {
            Some(lo)
        } else {
            ctx.bad("C09/read/command/not-newer-of-two/labelled".to_string(), format!("terminal {} shows the command of terminal {} when stamps ascend with the terminal number and of terminal {} when they descend: not 'the newer of own and one partner'; {}", k, hi, lo, hist()));
            return None;
        };
        seen.push(p);
    }
    Some((seen, last_reads))
}
fn fmt_partners(p: &[Option<usize>]) -> String {
    let v: Vec<String> = p.iter().enumerate().map(|(k, x)| match x {
        Some(j) => format!("{}->{}", k, j),
        None => format!("{}->-", k),
    }).collect();
    v.join(" ")
}
/// Symmetric partial matching + equal to the model.
fn check_relation(ctx: &mut Ctx, seen: &[Option<usize>], model: &Model, via: &str, tag: &str, hist: &dyn Fn() -> String) -> bool {
    let mut ok = true;
    ctx.rep.eval();
    for k in 0..seen.len() {
        if let Some(j) = seen[k] {
            if j == k || seen[j] != Some(k) {
                ctx.bad(format!("C09/matching/asymmetric/{}/{}", via, tag), format!("observed partner relation [{}] is not symmetric at terminal {}; model [{}]; {}", fmt_partners(seen), k, fmt_partners(&model.partners()), hist()));
                ok = false;
                break;
            }
        }
    }
    ctx.rep.eval();
    if seen != &model.partners()[..] {
        ctx.bad(format!("C09/matching/model-mismatch/{}/{}", via, tag), format!("observed partner relation [{}] differs from the model [{}]; {}", fmt_partners(seen), fmt_partners(&model.partners()), hist()));
        ok = false;
    }
    ok
}
/// Combined read of every terminal against its own state and command reads (which were just taken).
fn check_combined<'a>(ctx: &mut Ctx, ts: &'a [Term<'a>], states: &[Option<Datum<State>>], cmds: &[Option<Datum<Command>>], tag: &str, hist: &dyn Fn() -> String) {
    for k in 0..ts.len() {
        ctx.rep.eval();
        let got = match read_combined(&ts[k]) {
            Ok(Ok(g)) => g,
            Ok(Err(e)) => {
                ctx.bad(format!("C09/read/combined/err/{}", tag), format!("combined read of terminal {} returned {:?}; {}", k, e, hist()));
                continue;
            }
            Err(p) => {
                ctx.bad("C09/panic/read/combined".to_string(), format!("combined read of terminal {} panicked: {}; {}", k, p, hist()));
                continue;
            }
        };
        let exp_time = match (&states[k], &cmds[k]) {
            (Some(s), _) => Some(s.time),
            (None, Some(c)) => Some(c.time),
            (None, None) => None,
        };
        match (got, exp_time) {
            (None, None) => {}
            (Some(g), Some(t)) => {
                let st_ok = match (&g.value.state, &states[k]) {
                    (None, None) => true,
                    (Some(a), Some(b)) => ssame(a, &b.value),
                    _ => false,
                };
                let cm_ok = match (&g.value.command, &cmds[k]) {
                    (None, None) => true,
                    (Some(a), Some(b)) => csame(a, &b.value),
                    _ => false,
                };
                if !st_ok {
                    ctx.bad(format!("C09/read/combined/state/{}", tag), format!("terminal {}: combined read {:?} but state read {:?}; {}", k, g, states[k], hist()));
                }
                if !cm_ok {
                    ctx.bad(format!("C09/read/combined/command/{}", tag), format!("terminal {}: combined read {:?} but command read {:?}; {}", k, g, cmds[k], hist()));
                }
                if g.value.time != t {
                    ctx.bad(format!("C09/read/combined/time/{}", tag), format!("terminal {}: combined read {:?}, expected time {:?} (state read {:?}, command read {:?}); {}", k, g, t, states[k], cmds[k], hist()));
                }
                if g.time != t {
                    ctx.bad(format!("C09/read/combined/datum-time/{}", tag), format!("terminal {}: combined read {:?}, expected datum stamp {:?} (state read {:?}, command read {:?}); {}", k, g, t, states[k], cmds[k], hist()));
                }
            }
            (g, t) => {
                ctx.bad(format!("C09/read/combined/presence/{}", tag), format!("terminal {}: combined read {:?} but expected stamp {:?} (state read {:?}, command read {:?}); {}", k, g, t, states[k], cmds[k], hist()));
            }
        }
    }
}
/// Full observation: by state, by command, combined read. Returns false if anything was wrong.
fn last_state(t: &Term<'_>) -> Result<Option<Datum<State>>, String> {
    catch(|| Settable::<Datum<State>, E>::get_last_request(&*t.borrow()))
}
fn last_command(t: &Term<'_>) -> Result<Option<Datum<Command>>, String> {
    catch(|| Settable::<Datum<Command>, E>::get_last_request(&*t.borrow()))
}
/// Every read the monitor knows, each under panic capture.
struct Reads {
    s: Result<Out<State>, String>,
    c: Result<Out<Command>, String>,
    d: Result<Out<TerminalData>, String>,
    ls: Result<Option<Datum<State>>, String>,
    lc: Result<Option<Datum<Command>>, String>,
}
fn take_reads(t: &Term<'_>) -> Reads {
    Reads { s: read_state(t), c: read_command(t), d: read_combined(t), ls: last_state(t), lc: last_command(t) }
}
fn tdsame(a: &TerminalData, b: &TerminalData) -> bool {
    a.time == b.time
        && match (&a.command, &b.command) {
            (None, None) => true,
            (Some(x), Some(y)) => csame(x, y),
            _ => false,
        }
        && match (&a.state, &b.state) {
            (None, None) => true,
            (Some(x), Some(y)) => ssame(x, y),
            _ => false,
        }
}
fn osame<T>(a: &Option<Datum<T>>, b: &Option<Datum<T>>, veq: impl Fn(&T, &T) -> bool) -> bool {
    match (a, b) {
        (None, None) => true,
        (Some(x), Some(y)) => x.time == y.time && veq(&x.value, &y.value),
        _ => false,
    }
}
/// Reads under outstanding SHARED borrows (`Ref`, never `RefMut`) of (a) the partner, (b) the terminal
/// itself, (c) both, (d) an unrelated terminal: every read only needs `&self` of either end, so none may
/// panic and each must give the same answer as without the guard.
fn guarded_reads<'a>(ctx: &mut Ctx, ts: &'a [Term<'a>], m: &Model, hist: &dyn Fn() -> String) -> bool {
    let n = ts.len();
    let before = ctx.rep.violation_count;
    for k in 0..n {
        let base = take_reads(&ts[k]);
        let partner = m.partner(k);
        let unrelated = (0..n).find(|&u| u != k && Some(u) != partner);
        let mut configs: Vec<(&'static str, Vec<usize>)> = vec![("self", vec![k])];
        if let Some(j) = partner {
            configs.push(("partner", vec![j]));
            configs.push(("both", vec![k, j]));
            configs.push(("both", vec![j, k]));
        }
        if let Some(u) = unrelated {
            configs.push(("unrelated", vec![u]));
        }
        for (cfg, idxs) in configs {
            ctx.rep.tally(match (cfg, partner.is_some()) {
                ("self", true) => "guarded_reads_self_linked",
                ("self", false) => "guarded_reads_self_unlinked",
                ("partner", _) => "guarded_reads_partner_linked",
                ("both", _) => "guarded_reads_both_linked",
                (_, true) => "guarded_reads_unrelated_linked",
                (_, false) => "guarded_reads_unrelated_unlinked",
            });
            let got = {
                let _guards: Vec<std::cell::Ref<'_, Terminal<'a, E>>> = idxs.iter().map(|&x| ts[x].borrow()).collect();
                take_reads(&ts[k])
            };
            // (name, panic message under the guard if any, equal to the unguarded answer?, baseline usable?)
            let rows: [(&str, Option<&String>, bool, bool); 5] = [
                ("state", got.s.as_ref().err(), matches!((&got.s, &base.s), (Ok(a), Ok(b)) if out_same(a, b, ssame)), base.s.is_ok()),
                ("command", got.c.as_ref().err(), matches!((&got.c, &base.c), (Ok(a), Ok(b)) if out_same(a, b, csame)), base.c.is_ok()),
                ("combined", got.d.as_ref().err(), matches!((&got.d, &base.d), (Ok(a), Ok(b)) if out_same(a, b, tdsame)), base.d.is_ok()),
                ("last-request-state", got.ls.as_ref().err(), matches!((&got.ls, &base.ls), (Ok(a), Ok(b)) if osame(a, b, ssame)), base.ls.is_ok()),
                ("last-request-command", got.lc.as_ref().err(), matches!((&got.lc, &base.lc), (Ok(a), Ok(b)) if osame(a, b, csame)), base.lc.is_ok()),
            ];
            for (name, panicked, equal, base_ok) in rows {
                if !base_ok {
                    continue; // the unguarded read itself panicked: reported by the ordinary read checks
                }
                ctx.rep.eval();
                if let Some(msg) = panicked {
                    ctx.bad(format!("C09/panic/read/{}/under-shared-borrow-of-{}", name, cfg), format!("{} read of terminal {} (partner {:?}) panicked while shared borrows (Ref) of terminals {:?} were alive: {}; without them it returns normally; {}", name, k, partner, idxs, msg, hist()));
                } else if !equal {
                    ctx.bad(format!("C09/read/{}/changed-under-shared-borrow-of-{}", name, cfg), format!("{} read of terminal {} (partner {:?}) differs while shared borrows (Ref) of terminals {:?} are alive; {}", name, k, partner, idxs, hist()));
                }
            }
        }
    }
    ctx.rep.violation_count == before
}
fn observe_full<'a>(ctx: &mut Ctx, ts: &'a [Term<'a>], lab: &Labels, model: &Model, cmd_base: i64, tag: &str, hist: &dyn Fn() -> String) -> bool {
    let before = ctx.rep.violation_count;
    if let Some((seen, sraw)) = observe_by_state(ctx, ts, lab, hist) {
        check_relation(ctx, &seen, model, "state-reads", tag, hist);
        if let Some((seen_c, craw)) = observe_by_command(ctx, ts, cmd_base, hist) {
            check_relation(ctx, &seen_c, model, "command-reads", tag, hist);
            let s: Vec<_> = sraw.into_iter().map(Some).collect();
            let c: Vec<_> = craw.into_iter().map(Some).collect();
            check_combined(ctx, ts, &s, &c, "labelled", hist);
            guarded_reads(ctx, ts, model, hist);
        }
    }
    ctx.rep.violation_count == before
}
fn fmt_ops(ops: &[Op]) -> String {
    let v: Vec<String> = ops.iter().map(|o| match o {
        Op::Connect(a, b) => format!("connect({},{})", a, b),
        Op::Disconnect(a) => format!("disconnect({})", a),
    }).collect();
    format!("[{}]", v.join(", "))
}
// ------------------------------------------------------------------------------------------------
// 1. exhaustive BFS
// ------------------------------------------------------------------------------------------------
fn run_edge(ctx: &mut Ctx, n: usize, path: &[Op], source: &Model, op: Op, variant: u64) {
    let ts: Vec<Term> = (0..n).map(|_| Terminal::new()).collect();
    run_edge_on(ctx, &ts, path, source, op, variant);
}
fn run_edge_on<'a>(ctx: &mut Ctx, ts: &'a [Term<'a>], path: &[Op], source: &Model, op: Op, variant: u64) {
    let n = ts.len();
    let lab = Labels::plain(n);
    let rel = source.relation(op);
    let tag = format!("{}/{}", op.kind(), rel);
    let hist = || format!("n={} fresh terminals, state 2^k stamp k written {}, replay {} then {}", n, if variant == 0 { "first" } else { "last" }, fmt_ops(path), fmt_ops(&[op]));
    if variant == 0 && !write_labels(ctx, ts, &lab, &hist) {
        return;
    }
    // replay the BFS path to the source matching
    let mut m = Model::new(n);
    for (i, &p) in path.iter().enumerate() {
        let r = m.relation(p);
        if let Err(msg) = exec(ts, p) {
            // reported by the edge that owns this operation; this edge is lost
            ctx.rep.tally("bfs_edges_blocked_by_panic_in_path");
            ctx.bad(format!("C09/panic/{}/{}", p.kind(), r), format!("step {} of the replay path panicked: {}; {}", i, msg, hist()));
            return;
        }
        m.apply(p);
    }
    debug_assert!(&m == source);
    if variant == 0 {
        // the source matching really was reached
        match observe_by_state(ctx, ts, &lab, &hist) {
            Some((seen, _)) if check_relation(ctx, &seen, source, "state-reads", "replay", &hist) => {
                ctx.rep.tally(&format!("bfs_source_matching_observed_n{}", n));
            }
            // the source matching was not reached (reported): the edge cannot be judged
            _ => return,
        }
    }
    ctx.rep.eval();
    ctx.rep.tally(&format!("op_{}", tag));
    if let Err(msg) = exec(ts, op) {
        ctx.rep.tally("panics_observed");
        ctx.bad(format!("C09/panic/{}", tag), format!("{} panicked: {}; pre-state [{}]; {}", fmt_ops(&[op]), msg, fmt_partners(&source.partners()), hist()));
        return;
    }
    m.apply(op);
    if variant != 0 && !write_labels(ctx, ts, &lab, &hist) {
        return;
    }
    observe_full(ctx, ts, &lab, &m, 10, &tag, &hist);
}
// ------------------------------------------------------------------------------------------------
// 2. random walks
// ------------------------------------------------------------------------------------------------
fn random_op(rng: &mut Rng, m: &Model) -> Op {
    let n = m.n;
    let linked: Vec<usize> = (0..n).filter(|&k| m.partner(k).is_some()).collect();
    let r = rng.below(100);
    if r < 15 && !linked.is_empty() {
        // re-connect an already connected pair (either order)
        let a = *rng.pick(&linked);
        return Op::Connect(a, m.partner(a).unwrap());
    }
    if r < 30 && !linked.is_empty() {
        return Op::Disconnect(*rng.pick(&linked));
    }
    if r < 40 {
        return Op::Disconnect(rng.usize(n));
    }
    let a = rng.usize(n);
    let mut b = rng.usize(n - 1);
    if b >= a {
        b += 1;
    }
    Op::Connect(a, b)
}
fn run_walk(ctx: &mut Ctx, seed: u64) {
    let mut rng = Rng::new(seed, 902, ctx.case);
    let n = 2 + rng.usize(5);
    let ts: Vec<Term> = (0..n).map(|_| Terminal::new()).collect();
    run_walk_on(ctx, &ts, &mut rng);
}
fn run_walk_on<'a>(ctx: &mut Ctx, ts: &'a [Term<'a>], rng: &mut Rng) {
    let n = ts.len();
    // distinct exponents 0..16 in random order, arbitrary stamps (ties allowed: only compared)
    let mut pool: Vec<i32> = (0..16).collect();
    let mut exps = Vec::new();
    for _ in 0..n {
        let i = rng.usize(pool.len());
        exps.push(pool.swap_remove(i));
    }
    let mut lab = Labels { exps, stamps: (0..n).map(|_| rng.stamp()).collect() };
    if rng.chance(0.3) {
        let s = lab.stamps[0];
        for x in lab.stamps.iter_mut() {
            if rng.chance(0.5) {
                *x = s;
            }
        }
    }
    let mut done: Vec<Op> = Vec::new();
    let mut m = Model::new(n);
    {
        let hist = || format!("n={} labels {:?}", n, lab);
        if !write_labels(ctx, ts, &lab, &hist) {
            return;
        }
    }
    let mut sampled = false;
    let mut last_cmd_base = 0i64;
    for step in 0..64 {
        // occasionally re-stamp one terminal's state (same value, new arbitrary stamp)
        if rng.chance(0.1) {
            let k = rng.usize(n);
            lab.stamps[k] = rng.stamp();
            let hist = || format!("n={} labels {:?} after {}", n, lab, fmt_ops(&done));
            match write_state(&ts[k], lab.datum(k)) {
                Ok(Ok(())) => {}
                other => {
                    ctx.bad("C09/write/state/failed".into(), format!("set(state) on terminal {}: {:?}; {}", k, other, hist()));
                    return;
                }
            }
        }
        let op = random_op(rng, &m);
        let rel = m.relation(op);
        let tag = format!("{}/{}", op.kind(), rel);
        ctx.rep.distinct(("walk", n, m.key(), op));
        ctx.rep.tally(&format!("op_{}", tag));
        ctx.rep.tally("walk_steps");
        ctx.rep.eval();
        let r = exec(ts, op);
        done.push(op);
        let hist = || format!("n={} labels {:?} walk {}", n, lab, fmt_ops(&done));
        if let Err(msg) = r {
            ctx.rep.tally("panics_observed");
            ctx.bad(format!("C09/panic/{}", tag), format!("step {} {} panicked: {}; pre-state [{}]; {}", step, fmt_ops(&[op]), msg, fmt_partners(&m.partners()), hist()));
            return;
        }
        m.apply(op);
        let ok = if step % 8 == 7 || step == 63 {
            last_cmd_base = rng.range_i64(-1 << 40, 1 << 40);
            observe_full(ctx, ts, &lab, &m, last_cmd_base, &tag, &hist)
        } else {
            match observe_by_state(ctx, ts, &lab, &hist) {
                Some((seen, _)) => check_relation(ctx, &seen, &m, "state-reads", &tag, &hist),
                None => false,
            }
        };
        if !ok {
            return; // the model and the terminals have diverged; later steps would only echo it
        }
        if !sampled && step == 5 && ctx.rep.want_sample("walk") {
            sampled = true;
            ctx.rep.sample("walk", format!("{} ... -> observed = model [{}]", hist(), fmt_partners(&m.partners())));
        }
    }
    ctx.rep.max("walk_max_pairs", m.pairs.len() as f64);
    // Coincidence phase on the matching the walk ended in (n up to 6, any matching): everything the
    // terminals hold is known (labels; the commands of the last observation's second round), so the
    // read-semantics oracle applies. Mostly paired writes of related values in every stamp order.
    let mut w = World::new(
        m.clone(),
        (0..n).map(|k| Some(lab.datum(k))).collect(),
        (0..n).map(|k| Some(Datum::new(Time(last_cmd_base + 1000 - k as i64), cmd_label(k)))).collect(),
    );
    let mut log = vec![format!("walk {} with labels {:?}, commands cmd_label(k) @{}+1000-k", fmt_ops(&done), lab, last_cmd_base)];
    let mut shape = Vec::new();
    {
        let hist = || format!("n={} history {:?}", n, log);
        if !check_reads(ctx, ts, &w, &hist) {
            return;
        }
    }
    if !sem_steps(ctx, ts, rng, &mut w, &mut log, &mut shape, 8, true) {
        return;
    }
    ctx.rep.tally("walks_completed");
}
// ------------------------------------------------------------------------------------------------
// 3. read semantics on random values
// ------------------------------------------------------------------------------------------------
/// Finite f32 whose biased exponent is <= 253, so the sum of any two is finite (|x| < 2^127).
fn sem_value(rng: &mut Rng) -> f32 {
    if rng.chance(0.6) {
        return rng.moderate(1e6);
    }
    if rng.chance(0.15) {
        // subnormals (odd and even mantissas): halving is not exact there
        let m = match rng.below(3) {
            0 => 1 + rng.below(8) as u32,
            1 => 0x007f_ffff - rng.below(8) as u32,
            _ => 1 + rng.below(0x007f_ffff) as u32,
        };
        return f32::from_bits(m | if rng.chance(0.5) { 0x8000_0000 } else { 0 });
    }
    let bits = rng.next_u64() as u32;
    let exp = (bits >> 23) & 0xff;
    let exp = exp.min(253);
    f32::from_bits((bits & 0x807f_ffff) | (exp << 23))
}
fn sem_state(rng: &mut Rng) -> State {
    State::new_raw(sem_value(rng), sem_value(rng), sem_value(rng))
}
fn sem_command(rng: &mut Rng) -> Command {
    let v = sem_value(rng);
    match rng.below(3) {
        0 => Command::Position(v),
        1 => Command::Velocity(v),
        _ => Command::Acceleration(v),
    }
}
fn special_state(rng: &mut Rng) -> State {
    State::new_raw(rng.special(), rng.special(), rng.special())
}
/// Flip the sign of every zero component (== the original, different bits); if there is none, set one
/// component to a zero first.
fn zero_flipped(rng: &mut Rng, v: State) -> State {
    let fl = |x: f32| if x == 0.0 { -x } else { x };
    let mut v = v;
    if v.position != 0.0 && v.velocity != 0.0 && v.acceleration != 0.0 {
        return match rng.below(3) {
            0 => State::new_raw(sem_value(rng), v.velocity, v.acceleration),
            1 => State::new_raw(v.position, sem_value(rng), v.acceleration),
            _ => State::new_raw(v.position, v.velocity, sem_value(rng)),
        };
    }
    v.position = fl(v.position);
    v.velocity = fl(v.velocity);
    v.acceleration = fl(v.acceleration);
    v
}
/// State value for one end given the value the other end holds: coincidences are made likely.
fn state_related(rng: &mut Rng, other: Option<State>, pool: &[State]) -> State {
    let r = rng.below(100);
    match other {
        Some(o) if r < 30 => o,                    // bit-identical re-issue of the other end's value
        Some(o) if r < 40 => zero_flipped(rng, o), // equal-but-for-signed-zero, or differing in exactly one field
        _ if r < 55 => *rng.pick(pool),
        _ if r < 70 => special_state(rng),
        _ => sem_state(rng),
    }
}
fn other_kind(rng: &mut Rng, c: Command) -> Command {
    let v = f32::from(c);
    let kinds = [PositionDerivative::Position, PositionDerivative::Velocity, PositionDerivative::Acceleration];
    let cur = PositionDerivative::from(c);
    let others: Vec<PositionDerivative> = kinds.iter().cloned().filter(|k| *k != cur).collect();
    Command::new(*rng.pick(&others), v)
}
/// Command for one end given the other end's: identical / same value other kind / same kind other value.
fn command_related(rng: &mut Rng, other: Option<Command>) -> Command {
    let r = rng.below(100);
    match other {
        Some(o) if r < 20 => o,
        Some(o) if r < 40 => other_kind(rng, o),
        Some(o) if r < 55 => Command::new(PositionDerivative::from(o), if rng.chance(0.5) { rng.special() } else { sem_value(rng) }),
        _ if r < 70 => {
            let v = rng.special();
            match rng.below(3) {
                0 => Command::Position(v),
                1 => Command::Velocity(v),
                _ => Command::Acceleration(v),
            }
        }
        _ => sem_command(rng),
    }
}
/// Stamp for one end given the other end's stamp: equal, adjacent, a few ns apart (below f32-seconds
/// resolution for |t| >= 1 s), or unrelated. Only ever compared by the crate.
fn sem_stamp(rng: &mut Rng, partner_stamp: Option<i64>) -> i64 {
    let r = rng.below(100);
    match partner_stamp {
        Some(p) if r < 25 => p,
        Some(p) if r < 40 => p.checked_add(*rng.pick(&[-1i64, 1])).unwrap_or(p),
        Some(p) if r < 55 => p.checked_add(rng.sign() as i64 * rng.range_i64(1, 30)).unwrap_or(p),
        _ if r < 70 => {
            let (a, b) = rng.close_stamps();
            if rng.chance(0.5) { a } else { b }
        }
        _ => rng.stamp(),
    }
}
/// Stamps for the two ends of a paired write: (first, second) in every order relation.
fn stamp_pair(rng: &mut Rng) -> (i64, i64) {
    let (a, b) = match rng.below(10) {
        0 | 1 => {
            let s = if rng.chance(0.5) { rng.stamp() } else { rng.close_stamps().0 };
            (s, s)
        }
        2 | 3 | 4 | 5 => rng.close_stamps(),
        6 => {
            let s = rng.stamp();
            (s, s + 1)
        }
        _ => (rng.stamp(), rng.stamp()),
    };
    if rng.chance(0.5) { (a, b) } else { (b, a) }
}
/// Distinct i64 stamps that a comparison made after conversion to f32 (seconds) cannot tell apart.
fn f32_confusable(a: i64, b: i64) -> bool {
    a != b && (a as f32) == (b as f32)
}
fn bits_same(a: &State, b: &State) -> bool {
    a.position.to_bits() == b.position.to_bits() && a.velocity.to_bits() == b.velocity.to_bits() && a.acceleration.to_bits() == b.acceleration.to_bits()
}
struct World {
    m: Model,
    st: Vec<Option<Datum<State>>>,
    cm: Vec<Option<Datum<Command>>>,
    /// getters the terminal's state / command slot currently follows, with their current content
    fs: Vec<Option<(Src<Datum<State>>, Out<Datum<State>>)>>,
    fc: Vec<Option<(Src<Datum<Command>>, Out<Datum<Command>>)>>,
}
impl World {
    fn new(m: Model, st: Vec<Option<Datum<State>>>, cm: Vec<Option<Datum<Command>>>) -> World {
        let n = m.n;
        World { m, st, cm, fs: (0..n).map(|_| None).collect(), fc: (0..n).map(|_| None).collect() }
    }
}
fn check_reads<'a>(ctx: &mut Ctx, ts: &'a [Term<'a>], w: &World, hist: &dyn Fn() -> String) -> bool {
    let n = ts.len();
    let before = ctx.rep.violation_count;
    let mut sreads: Vec<Option<Datum<State>>> = Vec::with_capacity(n);
    let mut creads: Vec<Option<Datum<Command>>> = Vec::with_capacity(n);
    for k in 0..n {
        let partner = w.m.partner(k);
        let link = if partner.is_some() { "linked" } else { "unlinked" };
        // ---- state read
        ctx.rep.eval();
        let got = match read_state(&ts[k]) {
            Ok(Ok(g)) => g,
            Ok(Err(e)) => {
                ctx.bad("C09/read/state/err".into(), format!("state read of terminal {} returned {:?}; {}", k, e, hist()));
                return false;
            }
            Err(p) => {
                ctx.bad("C09/panic/read/state".into(), format!("state read of terminal {} panicked: {}; {}", k, p, hist()));
                return false;
            }
        };
        let own = w.st[k];
        let par = partner.and_then(|j| w.st[j]);
        let scat = match (own, par) {
            (None, None) => "none",
            (Some(_), None) => "own-only",
            (None, Some(_)) => "partner-only",
            (Some(_), Some(_)) => "both",
        };
        ctx.rep.tally(&format!("sem_state_{}_{}", link, scat));
        match (own, par) {
            (None, None) => {
                if got.is_some() {
                    ctx.bad("C09/read/state/present-without-any-state".into(), format!("terminal {} ({}): neither side holds a state but the read is {:?}; {}", k, link, got, hist()));
                }
            }
            (Some(x), None) | (None, Some(x)) => {
                let ok = matches!(got, Some(g) if g.time == x.time && ssame(&g.value, &x.value));
                if !ok {
                    ctx.bad(format!("C09/read/state/{}", scat), format!("terminal {} ({}): only one state exists, {:?}, but the read is {:?}; {}", k, link, x, got, hist()));
                }
            }
            (Some(x), Some(y)) => match got {
                None => ctx.bad("C09/read/state/both/absent".into(), format!("terminal {}: own {:?} partner {:?} but read None; {}", k, x, y, hist())),
                Some(g) => {
                    let comps = [
                        (g.value.position, x.value.position, y.value.position),
                        (g.value.velocity, x.value.velocity, y.value.velocity),
                        (g.value.acceleration, x.value.acceleration, y.value.acceleration),
                    ];
                    let mut worst = 0u64;
                    let mut inexact_but_representable = false;
                    for (o, a, b) in comps {
                        let mean64 = (a as f64 + b as f64) / 2.0;
                        let reference = mean64 as f32;
                        worst = worst.max(ulp_dist(o, reference));
                        // The tolerance exists for means that are not f32 numbers. Where the mean IS an f32
                        // number (equal values on both ends, small integers, subnormals ...) the read must
                        // be that number: "the mean of x and x is x".
                        // ... Not asserted where halving an operand is itself inexact (operands or mean below
                        // 2*MIN_POSITIVE): there `a/2 + b/2` and `(a + b)/2` legitimately differ by one unit of the
                        // subnormal spacing, and "halve before adding so that large states cannot overflow" is a refactor
                        // a maintainer may make (an independent author submitted exactly that as a property-preserving
                        // change, seeded/benign/C03-D; the 2-ulp clause below still applies there).
                        let tiny = |v: f32| v != 0.0 && v.abs() < 2.0 * f32::MIN_POSITIVE;
                        if reference as f64 == mean64 && (tiny(a) || tiny(b) || tiny(reference)) { ctx.rep.tally("sem_state_mean_representable_but_tiny_not_asserted"); }
                        if reference as f64 == mean64 && !(tiny(a) || tiny(b) || tiny(reference)) {
                            ctx.rep.tally("sem_state_mean_representable");
                            if !same(o, reference) {
                                inexact_but_representable = true;
                            }
                        }
                    }
                    ctx.rep.eval();
                    if inexact_but_representable {
                        ctx.bad("C09/read/state/mean/exactly-representable".into(), format!("terminal {}: own {:?} partner {:?} read {:?} [{} {} {}]: a component whose mean is exactly an f32 number is not that number; {}", k, x, y, g, f(g.value.position), f(g.value.velocity), f(g.value.acceleration), hist()));
                    }
                    ctx.rep.max("state_mean_ulp_over_2", worst as f64 / 2.0);
                    if worst > 2 {
                        ctx.bad("C09/read/state/mean".into(), format!("terminal {}: own {:?} partner {:?} read {:?}: {} ulp from the mean; {}", k, x, y, g, worst, hist()));
                    }
                    ctx.rep.eval();
                    let tcat = if x.time == y.time { "tie" } else if x.time > y.time { "own-newer" } else { "partner-newer" };
                    ctx.rep.tally(&format!("sem_state_stamp_{}", tcat));
                    // coincidence coverage: equal values on both ends x stamp order, confusable stamps
                    let vrel = if bits_same(&x.value, &y.value) { "bit-equal" } else if x.value == y.value { "equal-signed-zero" } else { "differ" };
                    ctx.rep.tally(&format!("sem_state_values_{}_{}", vrel, tcat));
                    if f32_confusable(x.time.0, y.time.0) {
                        ctx.rep.tally(&format!("sem_state_stamps_f32-confusable_{}", tcat));
                        if vrel != "differ" {
                            ctx.rep.tally(&format!("sem_state_values_equal_stamps_f32-confusable_{}", tcat));
                        }
                    }
                    if g.time != x.time.max(y.time) {
                        ctx.bad(format!("C09/read/state/stamp/{}", tcat), format!("terminal {}: own {:?} partner {:?} read stamped {:?}, expected the max; {}", k, x, y, g.time, hist()));
                    }
                }
            },
        }
        sreads.push(got);
        // ---- command read
        ctx.rep.eval();
        let got = match read_command(&ts[k]) {
            Ok(Ok(g)) => g,
            Ok(Err(e)) => {
                ctx.bad("C09/read/command/err".into(), format!("command read of terminal {} returned {:?}; {}", k, e, hist()));
                return false;
            }
            Err(p) => {
                ctx.bad("C09/panic/read/command".into(), format!("command read of terminal {} panicked: {}; {}", k, p, hist()));
                return false;
            }
        };
        let own = w.cm[k];
        let par = partner.and_then(|j| w.cm[j]);
        let is = |g: &Option<Datum<Command>>, x: &Datum<Command>| matches!(g, Some(g) if g.time == x.time && csame(&g.value, &x.value));
        let ccat = match (own, par) {
            (None, None) => "none",
            (Some(_), None) => "own-only",
            (None, Some(_)) => "partner-only",
            (Some(x), Some(y)) => {
                if x.time == y.time { "both-tie" } else if x.time > y.time { "both-own-newer" } else { "both-partner-newer" }
            }
        };
        ctx.rep.tally(&format!("sem_command_{}_{}", link, ccat));
        if let (Some(x), Some(y)) = (own, par) {
            let same_kind = PositionDerivative::from(x.value) == PositionDerivative::from(y.value);
            let same_val = f32::from(x.value).to_bits() == f32::from(y.value).to_bits();
            let vrel = match (same_kind, same_val) {
                (true, true) => "identical",
                (false, true) => "same-value-other-kind",
                (true, false) => "same-kind-other-value",
                (false, false) => "unrelated",
            };
            ctx.rep.tally(&format!("sem_command_values_{}_{}", vrel, ccat));
            if f32_confusable(x.time.0, y.time.0) {
                ctx.rep.tally(&format!("sem_command_stamps_f32-confusable_{}", ccat));
            }
        }
        let ok = match (own, par) {
            (None, None) => got.is_none(),
            (Some(x), None) | (None, Some(x)) => is(&got, &x),
            (Some(x), Some(y)) => {
                if x.time > y.time {
                    is(&got, &x)
                } else if y.time > x.time {
                    is(&got, &y)
                } else {
                    is(&got, &x) || is(&got, &y) // tie: either
                }
            }
        };
        if !ok {
            ctx.bad(format!("C09/read/command/{}", ccat), format!("terminal {} ({}): own command {:?}, partner's {:?}, read {:?}; {}", k, link, own, par, got, hist()));
        }
        creads.push(got);
    }
    // ---- combined read = (command read, state read, state's stamp if any else the command's)
    for k in 0..n {
        let cc = match (&sreads[k], &creads[k]) {
            (Some(_), Some(_)) => "state+command",
            (Some(_), None) => "state-only",
            (None, Some(_)) => "command-only",
            (None, None) => "neither",
        };
        ctx.rep.tally(&format!("sem_combined_{}", cc));
    }
    check_combined(ctx, ts, &sreads, &creads, "sem", hist);
    // ---- own slots: exactly the latest datum that reached the terminal (by set or by following)
    for k in 0..n {
        ctx.rep.eval();
        match last_state(&ts[k]) {
            Ok(g) => {
                if !osame(&g, &w.st[k], ssame) {
                    ctx.bad("C09/read/last-request/state".into(), format!("terminal {}: own state slot holds {:?}, the latest state that reached it is {:?}; {}", k, g, w.st[k], hist()));
                }
            }
            Err(p) => ctx.bad("C09/panic/read/last-request-state".into(), format!("terminal {}: {}; {}", k, p, hist())),
        }
        ctx.rep.eval();
        match last_command(&ts[k]) {
            Ok(g) => {
                if !osame(&g, &w.cm[k], csame) {
                    ctx.bad("C09/read/last-request/command".into(), format!("terminal {}: own command slot holds {:?}, the latest command that reached it is {:?}; {}", k, g, w.cm[k], hist()));
                }
            }
            Err(p) => ctx.bad("C09/panic/read/last-request-command".into(), format!("terminal {}: {}; {}", k, p, hist())),
        }
    }
    // ---- two connected terminals read the same state
    for &(a, b) in &w.m.pairs {
        ctx.rep.eval();
        ctx.rep.tally("sem_pair_same_state_checks");
        let same_read = match (&sreads[a], &sreads[b]) {
            (None, None) => true,
            (Some(x), Some(y)) => x.time == y.time && ssame(&x.value, &y.value),
            _ => false,
        };
        if !same_read {
            ctx.bad("C09/read/state/connected-differ".into(), format!("terminals {} and {} are connected but read {:?} and {:?}; {}", a, b, sreads[a], sreads[b], hist()));
        }
    }
    ctx.rep.violation_count == before
}
fn run_sem(ctx: &mut Ctx, seed: u64) {
    let mut rng = Rng::new(seed, 903, ctx.case);
    let n = 2 + rng.usize(3);
    let ts: Vec<Term> = (0..n).map(|_| Terminal::new()).collect();
    run_sem_on(ctx, &ts, &mut rng);
}
fn run_sem_on<'a>(ctx: &mut Ctx, ts: &'a [Term<'a>], rng: &mut Rng) {
    let n = ts.len();
    let mut w = World::new(Model::new(n), vec![None; n], vec![None; n]);
    let mut log: Vec<String> = Vec::new();
    let mut shape: Vec<(u8, usize, usize)> = Vec::new(); // structural history (no values): the distinct key
    let steps = 8 + rng.usize(13);
    // family quota by case number: 0 = mostly linked from the start, 1 = free mix
    let family = ctx.case % 2;
    if family == 0 {
        let op = Op::Connect(0, 1);
        if let Err(msg) = exec(ts, op) {
            ctx.bad("C09/panic/connect/both-unlinked".into(), format!("connect(0,1) on fresh terminals panicked: {}", msg));
            return;
        }
        w.m.apply(op);
        log.push("connect(0,1)".into());
    }
    if ctx.case % 2000 == 6 {
        // quota: one long burst (65535 / 65536 / 65537 writes) on the linked pair (0,1), both ends read before
        let pool = [special_state(rng), sem_state(rng), State::new_raw(0.0, 0.0, 0.0)];
        for k in 0..2 {
            let d = Datum::new(Time(sem_stamp(rng, None)), sem_state(rng));
            if !do_write_state(ctx, ts, &mut w, &mut log, k, d) {
                return;
            }
        }
        {
            let hist = || format!("n={} history {:?}", n, log);
            if !check_reads(ctx, ts, &w, &hist) {
                return;
            }
        }
        let big = [65535usize, 65536, 65537][((ctx.case / 2000) % 3) as usize];
        if !burst_step(ctx, ts, rng, &mut w, &mut log, &mut shape, &pool, Some(big)) {
            return;
        }
        let hist = || format!("n={} history {:?}", n, log);
        if !check_reads(ctx, ts, &w, &hist) {
            return;
        }
    }
    if !sem_steps(ctx, ts, rng, &mut w, &mut log, &mut shape, steps, false) {
        return;
    }
    ctx.rep.tally("sem_cases_completed");
    ctx.rep.distinct(("sem", n, family, shape));
    if ctx.rep.want_sample("sem") {
        ctx.rep.sample("sem", format!("n={} history {:?}: all three reads of every terminal agreed with the oracle after every step", n, log));
    }
}
fn log_state(k: usize, d: &Datum<State>) -> String {
    format!("t{}.set(State[{} {} {}] @{})", k, f(d.value.position), f(d.value.velocity), f(d.value.acceleration), d.time.0)
}
fn log_command(k: usize, d: &Datum<Command>) -> String {
    format!("t{}.set({:?}[{:08x}] @{})", k, d.value, f32::from(d.value).to_bits(), d.time.0)
}
fn do_write_state<'a>(ctx: &mut Ctx, ts: &'a [Term<'a>], w: &mut World, log: &mut Vec<String>, k: usize, d: Datum<State>) -> bool {
    match write_state(&ts[k], d) {
        Ok(Ok(())) => {}
        other => {
            ctx.bad("C09/write/state/failed".into(), format!("set(state {:?}) on terminal {}: {:?}; after {:?}", d, k, other, log));
            return false;
        }
    }
    w.st[k] = Some(d);
    log.push(log_state(k, &d));
    true
}
fn do_write_command<'a>(ctx: &mut Ctx, ts: &'a [Term<'a>], w: &mut World, log: &mut Vec<String>, k: usize, d: Datum<Command>) -> bool {
    match write_command(&ts[k], d) {
        Ok(Ok(())) => {}
        other => {
            ctx.bad("C09/write/command/failed".into(), format!("set(command {:?}) on terminal {}: {:?}; after {:?}", d, k, other, log));
            return false;
        }
    }
    w.cm[k] = Some(d);
    log.push(log_command(k, &d));
    true
}
/// Random continuation of a history on terminals whose complete state is `w`; all three reads of every
/// terminal are checked after every step. `pair_heavy`: mostly paired writes (used after a walk).
fn sem_steps<'a>(ctx: &mut Ctx, ts: &'a [Term<'a>], rng: &mut Rng, w: &mut World, log: &mut Vec<String>, shape: &mut Vec<(u8, usize, usize)>, steps: usize, pair_heavy: bool) -> bool {
    let n = ts.len();
    // per-history pool of state values shared by all terminals (equal values on unrelated ends)
    let pool = [special_state(rng), sem_state(rng), State::new_raw(0.0, 0.0, 0.0)];
    for _ in 0..steps {
        let r = if pair_heavy { 45 + rng.below(40) } else { rng.below(100) };
        let pre = rng.below(100);
        if pre < 22 {
            // data delivery by FOLLOWING: follow(getter) + Terminal::update() instead of set
            if !follow_step(ctx, ts, rng, w, log, shape, &pool) {
                return false;
            }
        } else if pre < 31 {
            // write BURST with no read in between (anything that wraps after many operations)
            if !burst_step(ctx, ts, rng, w, log, shape, &pool, None) {
                return false;
            }
        } else if pre < 40 {
            // writes while other borrows (RefMut / Ref of the partner, of an unrelated terminal) are alive
            if !guarded_write_step(ctx, ts, rng, w, log, shape, &pool) {
                return false;
            }
        } else if r < 25 {
            // single state write, related to what the partner holds
            let k = rng.usize(n);
            let po = w.m.partner(k).and_then(|j| w.st[j]);
            let d = Datum::new(Time(sem_stamp(rng, po.map(|d| d.time.0))), state_related(rng, po.map(|d| d.value), &pool));
            if !do_write_state(ctx, ts, w, log, k, d) {
                return false;
            }
            shape.push((0, k, 0));
        } else if r < 45 {
            let k = rng.usize(n);
            let po = w.m.partner(k).and_then(|j| w.cm[j]);
            let d = Datum::new(Time(sem_stamp(rng, po.map(|d| d.time.0))), command_related(rng, po.map(|d| d.value)));
            if !do_write_command(ctx, ts, w, log, k, d) {
                return false;
            }
            shape.push((1, k, 0));
        } else if r < 70 {
            // paired write: both ends of a link (or two terminals that may be linked later) get related
            // values with stamps in a chosen order relation
            let pairs = w.m.key();
            let (a, b) = if !pairs.is_empty() && rng.chance(0.75) {
                let (x, y) = *rng.pick(&pairs);
                if rng.chance(0.5) { (x, y) } else { (y, x) }
            } else {
                let a = rng.usize(n);
                let mut b = rng.usize(n - 1);
                if b >= a {
                    b += 1;
                }
                (a, b)
            };
            let (ta, tb) = stamp_pair(rng);
            if rng.chance(0.5) {
                let va = state_related(rng, None, &pool);
                let vb = state_related(rng, Some(va), &pool);
                if !do_write_state(ctx, ts, w, log, a, Datum::new(Time(ta), va)) || !do_write_state(ctx, ts, w, log, b, Datum::new(Time(tb), vb)) {
                    return false;
                }
                shape.push((4, a, b));
            } else {
                let va = command_related(rng, None);
                let vb = command_related(rng, Some(va));
                if !do_write_command(ctx, ts, w, log, a, Datum::new(Time(ta), va)) || !do_write_command(ctx, ts, w, log, b, Datum::new(Time(tb), vb)) {
                    return false;
                }
                shape.push((5, a, b));
            }
        } else {
            let op = if r < 90 {
                let a = rng.usize(n);
                let mut b = rng.usize(n - 1);
                if b >= a {
                    b += 1;
                }
                Op::Connect(a, b)
            } else {
                Op::Disconnect(rng.usize(n))
            };
            let tag = format!("{}/{}", op.kind(), w.m.relation(op));
            ctx.rep.eval();
            ctx.rep.tally(&format!("op_{}", tag));
            if let Err(msg) = exec(ts, op) {
                ctx.rep.tally("panics_observed");
                ctx.bad(format!("C09/panic/{}", tag), format!("{} panicked: {}; after {:?}", fmt_ops(&[op]), msg, log));
                return false;
            }
            w.m.apply(op);
            shape.push(match op {
                Op::Connect(a, b) => (2, a, b),
                Op::Disconnect(a) => (3, a, 0),
            });
            log.push(fmt_ops(&[op]));
        }
        let hist = || format!("n={} history {:?}", n, log);
        if !check_reads(ctx, ts, w, &hist) {
            return false;
        }
        if rng.chance(0.12) && !guarded_reads(ctx, ts, &w.m, &hist) {
            return false;
        }
    }
    true
}
const BURSTS: [usize; 8] = [1, 2, 255, 256, 257, 511, 512, 513];
/// `count` consecutive writes with NO read in between, on one end, alternating between two ends, or on both
/// ends one after the other; states, commands or both; every write the same datum or all different. Both
/// ends were read right before (every step ends with the full read oracle) and are read right after (ditto),
/// so a cache / revision counter / ring that only wraps after 256, 512, 65536 ... operations is exposed.
/// Model: each slot holds the LAST datum written to it.
fn burst_step<'a>(ctx: &mut Ctx, ts: &'a [Term<'a>], rng: &mut Rng, w: &mut World, log: &mut Vec<String>, shape: &mut Vec<(u8, usize, usize)>, pool: &[State], forced: Option<usize>) -> bool {
    let n = ts.len();
    let count = forced.unwrap_or_else(|| *rng.pick(&BURSTS));
    let pairs = w.m.key();
    let (a, b) = if !pairs.is_empty() && (forced.is_some() || rng.chance(0.8)) {
        let (x, y) = *rng.pick(&pairs);
        if rng.chance(0.5) { (x, y) } else { (y, x) }
    } else {
        let a = rng.usize(n);
        let mut b = rng.usize(n - 1);
        if b >= a {
            b += 1;
        }
        (a, b)
    };
    let linked = w.m.partner(a) == Some(b);
    let (pattern, sched): (&'static str, Vec<usize>) = match rng.below(4) {
        0 => ("one-end", vec![a; count]),
        1 => ("alternating", (0..count).map(|i| if i % 2 == 0 { a } else { b }).collect()),
        2 => ("alternating-count-each", (0..2 * count).map(|i| if i % 2 == 0 { a } else { b }).collect()),
        _ => ("one-end-then-the-other", (0..2 * count).map(|i| if i < count { a } else { b }).collect()),
    };
    let kind = *rng.pick(&["state", "command", "state+command"]);
    let identical = rng.chance(0.5);
    // final datum of each end, related to what the other end will hold
    let fa_s = Datum::new(Time(sem_stamp(rng, w.st[b].map(|d| d.time.0))), state_related(rng, w.st[b].map(|d| d.value), pool));
    let fb_s = Datum::new(Time(sem_stamp(rng, Some(fa_s.time.0))), state_related(rng, Some(fa_s.value), pool));
    let fa_c = Datum::new(Time(sem_stamp(rng, w.cm[b].map(|d| d.time.0))), command_related(rng, w.cm[b].map(|d| d.value)));
    let fb_c = Datum::new(Time(sem_stamp(rng, Some(fa_c.time.0))), command_related(rng, Some(fa_c.value)));
    let last_a = sched.iter().rposition(|&x| x == a);
    let last_b = sched.iter().rposition(|&x| x == b);
    let do_s = kind != "command";
    let do_c = kind != "state";
    let res = catch(|| {
        for (i, &x) in sched.iter().enumerate() {
            let fin = Some(i) == if x == a { last_a } else { last_b };
            if do_s {
                let d = if identical || fin {
                    if x == a { fa_s } else { fb_s }
                } else {
                    Datum::new(Time(i as i64), State::new_raw(i as f32, -(i as f32), 0.5))
                };
                if Settable::<Datum<State>, E>::set(&mut *ts[x].borrow_mut(), d).is_err() {
                    return false;
                }
            }
            if do_c {
                let d = if identical || fin {
                    if x == a { fa_c } else { fb_c }
                } else {
                    Datum::new(Time(-(i as i64)), Command::Velocity(i as f32))
                };
                if Settable::<Datum<Command>, E>::set(&mut *ts[x].borrow_mut(), d).is_err() {
                    return false;
                }
            }
        }
        true
    });
    log.push(format!(
        "burst of {} writes ({}, {}, {}) on t{}/t{} without reads; last: t{} <- {} / {}, t{} <- {} / {}",
        sched.len(), pattern, kind, if identical { "every write the same datum" } else { "all different" }, a, b,
        a, if do_s && last_a.is_some() { log_state(a, &fa_s) } else { "-".into() }, if do_c && last_a.is_some() { log_command(a, &fa_c) } else { "-".into() },
        b, if do_s && last_b.is_some() { log_state(b, &fb_s) } else { "-".into() }, if do_c && last_b.is_some() { log_command(b, &fb_c) } else { "-".into() }
    ));
    match res {
        Ok(true) => {}
        Ok(false) => {
            ctx.bad("C09/write/burst/returned-err".into(), format!("a set in a write burst returned Err; after {:?}", log));
            return false;
        }
        Err(p) => {
            ctx.bad("C09/panic/write/burst".into(), format!("a set in a write burst panicked: {}; after {:?}", p, log));
            return false;
        }
    }
    if last_a.is_some() {
        if do_s { w.st[a] = Some(fa_s); }
        if do_c { w.cm[a] = Some(fa_c); }
    }
    if last_b.is_some() {
        if do_s { w.st[b] = Some(fb_s); }
        if do_c { w.cm[b] = Some(fb_c); }
    }
    shape.push((7, a, b));
    ctx.rep.eval();
    ctx.rep.tally(&format!("burst_n{}", count));
    ctx.rep.tally(&format!("burst_pattern_{}", pattern));
    ctx.rep.tally(&format!("burst_kind_{}", kind));
    ctx.rep.tally(if identical { "burst_values_identical" } else { "burst_values_all-different" });
    ctx.rep.tally(if linked { "burst_ends_linked" } else { "burst_ends_not-linked" });
    if linked && do_s {
        ctx.rep.tally(&format!("burst_n{}_state_on-linked-pair", count));
        ctx.rep.tally(&format!("burst_{}_state_on-linked-pair", pattern));
    }
    ctx.rep.max("burst_max_writes", sched.len() as f64);
    true
}
/// A set() of state and/or command on terminal x through its own RefMut while other borrows are alive:
/// a RefMut of the partner (optionally writing the partner through that guard too), a Ref of the partner,
/// a RefMut / Ref of an unrelated terminal. set only ever touches the terminal it is called on, so all of
/// these work on the unchanged crate. The guards are dropped, then the ordinary read oracle runs.
fn guarded_write_step<'a>(ctx: &mut Ctx, ts: &'a [Term<'a>], rng: &mut Rng, w: &mut World, log: &mut Vec<String>, shape: &mut Vec<(u8, usize, usize)>, pool: &[State]) -> bool {
    let n = ts.len();
    let pairs = w.m.key();
    let x = if !pairs.is_empty() && rng.chance(0.8) {
        let (p, q) = *rng.pick(&pairs);
        if rng.chance(0.5) { p } else { q }
    } else {
        rng.usize(n)
    };
    let partner = w.m.partner(x);
    let unrelated: Vec<usize> = (0..n).filter(|&u| u != x && Some(u) != partner).collect();
    let mut cfgs: Vec<&'static str> = Vec::new();
    if partner.is_some() {
        cfgs.extend(["partner-refmut", "partner-refmut", "partner-refmut-both-written", "partner-refmut-both-written", "partner-ref"]);
    }
    if !unrelated.is_empty() {
        cfgs.extend(["unrelated-refmut", "unrelated-ref"]);
    }
    if cfgs.is_empty() {
        return true;
    }
    let cfg = *rng.pick(&cfgs);
    let g = if cfg.starts_with("partner") { partner.unwrap() } else { *rng.pick(&unrelated) };
    let kind = *rng.pick(&["state", "state", "command", "state+command"]);
    let do_s = kind != "command";
    let do_c = kind != "state";
    let guard_first = rng.chance(0.5);
    let x_first = rng.chance(0.5);
    let other_s = partner.and_then(|j| w.st[j]);
    let other_c = partner.and_then(|j| w.cm[j]);
    let dx_s = Datum::new(Time(sem_stamp(rng, other_s.map(|d| d.time.0))), state_related(rng, other_s.map(|d| d.value), pool));
    let dx_c = Datum::new(Time(sem_stamp(rng, other_c.map(|d| d.time.0))), command_related(rng, other_c.map(|d| d.value)));
    let dg_s = Datum::new(Time(sem_stamp(rng, Some(dx_s.time.0))), state_related(rng, Some(dx_s.value), pool));
    let dg_c = Datum::new(Time(sem_stamp(rng, Some(dx_c.time.0))), command_related(rng, Some(dx_c.value)));
    let both = cfg == "partner-refmut-both-written";
    let res = catch(|| {
        let mut ok = true;
        if cfg.ends_with("-ref") {
            let _gg = ts[g].borrow();
            let mut gx = ts[x].borrow_mut();
            if do_s { ok &= Settable::<Datum<State>, E>::set(&mut *gx, dx_s).is_ok(); }
            if do_c { ok &= Settable::<Datum<Command>, E>::set(&mut *gx, dx_c).is_ok(); }
        } else {
            let (mut gg, mut gx);
            if guard_first {
                gg = ts[g].borrow_mut();
                gx = ts[x].borrow_mut();
            } else {
                gx = ts[x].borrow_mut();
                gg = ts[g].borrow_mut();
            }
            for who in if x_first { [0, 1] } else { [1, 0] } {
                if who == 0 {
                    if do_s { ok &= Settable::<Datum<State>, E>::set(&mut *gx, dx_s).is_ok(); }
                    if do_c { ok &= Settable::<Datum<Command>, E>::set(&mut *gx, dx_c).is_ok(); }
                } else if both {
                    if do_s { ok &= Settable::<Datum<State>, E>::set(&mut *gg, dg_s).is_ok(); }
                    if do_c { ok &= Settable::<Datum<Command>, E>::set(&mut *gg, dg_c).is_ok(); }
                }
            }
        }
        ok
    });
    log.push(format!(
        "while holding {} of t{} ({}): t{} <- {} / {}{}",
        if cfg.ends_with("-ref") { "a Ref" } else { "a RefMut" }, g, cfg, x,
        if do_s { log_state(x, &dx_s) } else { "-".into() }, if do_c { log_command(x, &dx_c) } else { "-".into() },
        if both { format!("; through the held RefMut t{} <- {} / {}", g, if do_s { log_state(g, &dg_s) } else { "-".into() }, if do_c { log_command(g, &dg_c) } else { "-".into() }) } else { String::new() }
    ));
    match res {
        Ok(true) => {}
        Ok(false) => {
            ctx.bad(format!("C09/write/under-{}/returned-err", cfg), format!("set returned Err; after {:?}", log));
            return false;
        }
        Err(p) => {
            ctx.bad(format!("C09/panic/write/under-{}", cfg), format!("set on terminal {} panicked while only other terminals were borrowed: {}; after {:?}", x, p, log));
            return false;
        }
    }
    if do_s { w.st[x] = Some(dx_s); }
    if do_c { w.cm[x] = Some(dx_c); }
    if both {
        if do_s { w.st[g] = Some(dg_s); }
        if do_c { w.cm[g] = Some(dg_c); }
    }
    shape.push((8, x, g));
    ctx.rep.eval();
    ctx.rep.tally(&format!("guarded_write_{}_{}", cfg, kind));
    true
}
/// Stamp for a followed datum relative to a stored one: strictly older / equal / strictly newer.
fn rel_stamp(rng: &mut Rng, reference: Option<i64>) -> i64 {
    match reference {
        Some(p) => {
            let gap = match rng.below(3) {
                0 => 1,
                1 => rng.range_i64(1, 30),
                _ => rng.range_i64(1, 1 << 40),
            };
            match rng.below(3) {
                0 => p,
                1 => p.checked_sub(gap).unwrap_or(p),
                _ => p.checked_add(gap).unwrap_or(p),
            }
        }
        None => sem_stamp(rng, None),
    }
}
fn order_word(new: i64, stored: Option<i64>) -> &'static str {
    match stored {
        None => "first",
        Some(s) if new < s => "older",
        Some(s) if new == s => "equal",
        Some(_) => "newer",
    }
}
/// One delivery by following on a random terminal: (start following,) refresh what the followed getters
/// return, call `Terminal::update()`. Model: a present followed datum becomes the own slot's content
/// whatever its stamp; an absent one changes nothing; an erring getter makes update return that error
/// with the slot unchanged. (Which slot is polled first is not promised, so whenever one followed getter
/// errs the other one is made absent or erring too.)
fn follow_step<'a>(ctx: &mut Ctx, ts: &'a [Term<'a>], rng: &mut Rng, w: &mut World, log: &mut Vec<String>, shape: &mut Vec<(u8, usize, usize)>, pool: &[State]) -> bool {
    let n = ts.len();
    let k = rng.usize(n);
    let which = rng.below(3); // 0 state, 1 command, 2 both are refreshed this time
    let partner = w.m.partner(k);
    // occasionally stop following first (then update must leave that slot alone)
    if rng.chance(0.08) && w.fs[k].is_some() {
        if let Err(p) = catch(|| Settable::<Datum<State>, E>::stop_following(&mut *ts[k].borrow_mut())) {
            ctx.bad("C09/panic/stop-following/state".into(), format!("terminal {}: {}; after {:?}", k, p, log));
            return false;
        }
        w.fs[k] = None;
        ctx.rep.tally("follow_state_stopped");
        log.push(format!("t{}.stop_following(state)", k));
    }
    if rng.chance(0.08) && w.fc[k].is_some() {
        if let Err(p) = catch(|| Settable::<Datum<Command>, E>::stop_following(&mut *ts[k].borrow_mut())) {
            ctx.bad("C09/panic/stop-following/command".into(), format!("terminal {}: {}; after {:?}", k, p, log));
            return false;
        }
        w.fc[k] = None;
        ctx.rep.tally("follow_command_stopped");
        log.push(format!("t{}.stop_following(command)", k));
    }
    if which != 1 {
        if w.fs[k].is_none() {
            let src: Src<Datum<State>> = Src::new();
            let r = src.dynref();
            if let Err(p) = catch(|| Settable::<Datum<State>, E>::follow(&mut *ts[k].borrow_mut(), r)) {
                ctx.bad("C09/panic/follow/state".into(), format!("terminal {}: {}; after {:?}", k, p, log));
                return false;
            }
            w.fs[k] = Some((src, Ok(None)));
            log.push(format!("t{}.follow(state getter)", k));
        }
        let stored = w.st[k].map(|d| d.time.0);
        let pstored = partner.and_then(|j| w.st[j]).map(|d| d.time.0);
        let content: Out<Datum<State>> = match rng.below(10) {
            0 => Ok(None),
            1 => Err(err_code(rng.below(3) as u8)),
            _ => {
                let reference = if rng.chance(0.5) { stored.or(pstored) } else { pstored.or(stored) };
                let t = rel_stamp(rng, reference);
                let other = if rng.chance(0.5) { partner.and_then(|j| w.st[j]).map(|d| d.value) } else { w.st[k].map(|d| d.value) };
                let inner = Datum::new(Time(t), state_related(rng, other, pool));
                let outer = if rng.chance(0.5) { t } else { rng.stamp() };
                Ok(Some(Datum::new(Time(outer), inner)))
            }
        };
        let (src, cur) = w.fs[k].as_mut().unwrap();
        src.set(content.clone());
        *cur = content;
    }
    if which != 0 {
        if w.fc[k].is_none() {
            let src: Src<Datum<Command>> = Src::new();
            let r = src.dynref();
            if let Err(p) = catch(|| Settable::<Datum<Command>, E>::follow(&mut *ts[k].borrow_mut(), r)) {
                ctx.bad("C09/panic/follow/command".into(), format!("terminal {}: {}; after {:?}", k, p, log));
                return false;
            }
            w.fc[k] = Some((src, Ok(None)));
            log.push(format!("t{}.follow(command getter)", k));
        }
        let stored = w.cm[k].map(|d| d.time.0);
        let pstored = partner.and_then(|j| w.cm[j]).map(|d| d.time.0);
        let content: Out<Datum<Command>> = match rng.below(10) {
            0 => Ok(None),
            1 => Err(err_code(rng.below(3) as u8)),
            _ => {
                let reference = if rng.chance(0.5) { stored.or(pstored) } else { pstored.or(stored) };
                let t = rel_stamp(rng, reference);
                let other = if rng.chance(0.5) { partner.and_then(|j| w.cm[j]).map(|d| d.value) } else { w.cm[k].map(|d| d.value) };
                let inner = Datum::new(Time(t), command_related(rng, other));
                let outer = if rng.chance(0.5) { t } else { rng.stamp() };
                Ok(Some(Datum::new(Time(outer), inner)))
            }
        };
        let (src, cur) = w.fc[k].as_mut().unwrap();
        src.set(content.clone());
        *cur = content;
    }
    // if one followed getter errs, the other must not carry a datum (polling order is not promised)
    let s_err = matches!(&w.fs[k], Some((_, Err(_))));
    let c_err = matches!(&w.fc[k], Some((_, Err(_))));
    if c_err {
        if let Some((src, cur)) = w.fs[k].as_mut() {
            if matches!(cur, Ok(Some(_))) {
                src.set(Ok(None));
                *cur = Ok(None);
            }
        }
    }
    if s_err {
        if let Some((src, cur)) = w.fc[k].as_mut() {
            if matches!(cur, Ok(Some(_))) {
                src.set(Ok(None));
                *cur = Ok(None);
            }
        }
    }
    let s_now: Option<Out<Datum<State>>> = w.fs[k].as_ref().map(|x| x.1.clone());
    let c_now: Option<Out<Datum<Command>>> = w.fc[k].as_ref().map(|x| x.1.clone());
    log.push(format!("t{}.update() with followed state getter -> {:?}, followed command getter -> {:?}", k, s_now, c_now));
    shape.push((6, k, which as usize));
    let ret = match catch(|| Updatable::<E>::update(&mut *ts[k].borrow_mut())) {
        Ok(r) => r,
        Err(p) => {
            ctx.bad("C09/panic/update".into(), format!("update() of terminal {} panicked: {}; after {:?}", k, p, log));
            return false;
        }
    };
    // ---- model
    let mut errs: Vec<Error<E>> = Vec::new();
    let partner_s = partner.and_then(|j| w.st[j]).map(|d| d.time.0);
    let partner_c = partner.and_then(|j| w.cm[j]).map(|d| d.time.0);
    match &s_now {
        None => ctx.rep.tally("follow_state_not-following"),
        Some(Ok(None)) => ctx.rep.tally("follow_state_absent"),
        Some(Err(e)) => {
            ctx.rep.tally("follow_state_err");
            errs.push(*e);
        }
        Some(Ok(Some(d))) => {
            let inner = d.value;
            ctx.rep.tally(&format!("follow_state_delivered_{}-than-stored", order_word(inner.time.0, w.st[k].map(|x| x.time.0))));
            if partner.is_some() {
                ctx.rep.tally(&format!("follow_state_delivered_{}-than-partners", order_word(inner.time.0, partner_s)));
            }
            if let Some(old) = w.st[k] {
                if !ssame(&old.value, &inner.value) {
                    ctx.rep.tally(&format!("follow_state_delivered_new-value_{}-than-stored", order_word(inner.time.0, Some(old.time.0))));
                }
            }
            w.st[k] = Some(inner);
        }
    }
    match &c_now {
        None => ctx.rep.tally("follow_command_not-following"),
        Some(Ok(None)) => ctx.rep.tally("follow_command_absent"),
        Some(Err(e)) => {
            ctx.rep.tally("follow_command_err");
            errs.push(*e);
        }
        Some(Ok(Some(d))) => {
            let inner = d.value;
            ctx.rep.tally(&format!("follow_command_delivered_{}-than-stored", order_word(inner.time.0, w.cm[k].map(|x| x.time.0))));
            if partner.is_some() {
                ctx.rep.tally(&format!("follow_command_delivered_{}-than-partners", order_word(inner.time.0, partner_c)));
            }
            if let Some(old) = w.cm[k] {
                if !csame(&old.value, &inner.value) {
                    ctx.rep.tally(&format!("follow_command_delivered_new-value_{}-than-stored", order_word(inner.time.0, Some(old.time.0))));
                }
            }
            w.cm[k] = Some(inner);
        }
    }
    ctx.rep.eval();
    ctx.rep.tally("follow_updates");
    let ret_ok = match (&ret, errs.is_empty()) {
        (Ok(()), true) => true,
        (Err(e), false) => errs.iter().any(|x| x == e),
        _ => false,
    };
    if !errs.is_empty() {
        ctx.rep.tally("follow_update_expected_err");
    }
    if !ret_ok {
        ctx.bad("C09/follow/update-return".into(), format!("update() of terminal {} returned {:?}; the followed getters' errors were {:?}; after {:?}", k, ret, errs, log));
        return false;
    }
    true
}
fn main() {
    let args = Args::parse();
    let mut rep = Report::new("C09", &args);
    // ---- 1. exhaustive BFS over matchings x operations, n = 2..=6
    let expected_matchings: [u64; 7] = [1, 1, 2, 4, 10, 26, 76]; // involution numbers
    let mut case = 0u64;
    let mut total_edges = 0u64;
    for n in 2..=6usize {
        let ops = all_ops(n);
        // BFS on the model: nodes with a shortest path from the empty matching
        let mut nodes: Vec<(Model, Vec<Op>)> = vec![(Model::new(n), vec![])];
        let mut index: BTreeMap<Model, usize> = BTreeMap::new();
        index.insert(Model::new(n), 0);
        let mut queue: VecDeque<usize> = VecDeque::new();
        queue.push_back(0);
        while let Some(i) = queue.pop_front() {
            for &op in &ops {
                let mut t = nodes[i].0.clone();
                t.apply(op);
                if !index.contains_key(&t) {
                    let mut p = nodes[i].1.clone();
                    p.push(op);
                    index.insert(t.clone(), nodes.len());
                    nodes.push((t, p));
                    queue.push_back(nodes.len() - 1);
                }
            }
        }
        if nodes.len() as u64 != expected_matchings[n] {
            // the monitor's own model is wrong: make the run inconclusive rather than green
            rep.floor("model_bfs_matches_involution_numbers", u64::MAX);
        }
        for (mi, (src, path)) in nodes.iter().enumerate() {
            for (oi, &op) in ops.iter().enumerate() {
                for variant in 0..2u64 {
                    let this = case;
                    case += 1;
                    total_edges += 1;
                    if !args.mine("bfs", this) {
                        continue;
                    }
                    rep.distinct(("bfs", n, src.key(), op, variant));
                    rep.tally("bfs_edges_executed");
                    rep.tally(&format!("bfs_edges_n{}", n));
                    let mut ctx = Ctx { rep: &mut rep, sub: "bfs", case: this };
                    run_edge(&mut ctx, n, path, src, op, variant);
                    if mi == 1 && oi == 0 && variant == 0 && rep.want_sample("bfs") {
                        rep.sample("bfs", format!("n={} matching {:?} (path {}) x {}: no panic, observed relation = model", n, src.key(), fmt_ops(path), fmt_ops(&[op])));
                    }
                }
            }
        }
        rep.floor(&format!("bfs_edges_n{}", n), 2 * expected_matchings[n] * ops.len() as u64);
        // every (matching, op, variant 0) edge confirms the source matching by observation
        rep.floor(&format!("bfs_source_matching_observed_n{}", n), expected_matchings[n] * ops.len() as u64);
    }
    rep.floor("bfs_edges_executed", total_edges);
    rep.exhaustive("every matching of n = 2..=6 terminals (2, 4, 10, 26, 76) x every connect(i,j), i != j, and disconnect(i), x labels written first / last");
    // ---- 2. random walks of length 64
    for case in args.cases("walk", 2_000, 300_000) {
        let mut ctx = Ctx { rep: &mut rep, sub: "walk", case };
        run_walk(&mut ctx, args.seed);
    }
    // ---- 3. read semantics
    for case in args.cases("sem", 20_000, 3_000_000) {
        let mut ctx = Ctx { rep: &mut rep, sub: "sem", case };
        run_sem(&mut ctx, args.seed);
    }
    if args.only.is_none() {
        let q = !args.thorough;
        let fl = |a: u64, b: u64| if q { a } else { b };
        rep.floor("walks_completed", fl(2_000, 300_000));
        for t in [
            "op_connect/already-linked-to-each-other",
            "op_connect/both-unlinked",
            "op_connect/first-linked-elsewhere",
            "op_connect/second-linked-elsewhere",
            "op_connect/both-linked-elsewhere",
            "op_disconnect/linked",
            "op_disconnect/unlinked",
        ] {
            rep.floor(t, 500);
        }
        for t in [
            "sem_state_linked_both",
            "sem_state_linked_own-only",
            "sem_state_linked_partner-only",
            "sem_state_linked_none",
            "sem_state_unlinked_own-only",
            "sem_state_unlinked_none",
            "sem_state_stamp_tie",
            "sem_state_stamp_own-newer",
            "sem_state_stamp_partner-newer",
            "sem_command_linked_both-tie",
            "sem_command_linked_both-own-newer",
            "sem_command_linked_both-partner-newer",
            "sem_command_linked_own-only",
            "sem_command_linked_partner-only",
            "sem_command_linked_none",
            "sem_command_unlinked_own-only",
            "sem_command_unlinked_none",
            "sem_combined_state+command",
            "sem_combined_state-only",
            "sem_combined_command-only",
            "sem_combined_neither",
            "sem_pair_same_state_checks",
        ] {
            rep.floor(t, 1000);
        }
        // coincidence coverage: equal values on both ends x every stamp order; stamps a comparison in
        // f32 seconds would confuse; commands equal in value / kind / both
        for order in ["own-newer", "partner-newer", "tie"] {
            rep.floor(&format!("sem_state_values_bit-equal_{}", order), 1000);
            rep.floor(&format!("sem_state_values_equal-signed-zero_{}", order), 300);
            for vrel in ["identical", "same-value-other-kind", "same-kind-other-value", "unrelated"] {
                rep.floor(&format!("sem_command_values_{}_both-{}", vrel, order), 1000);
            }
        }
        for order in ["own-newer", "partner-newer"] {
            rep.floor(&format!("sem_state_stamps_f32-confusable_{}", order), 1000);
            rep.floor(&format!("sem_state_values_equal_stamps_f32-confusable_{}", order), 1000);
            rep.floor(&format!("sem_command_stamps_f32-confusable_both-{}", order), 1000);
        }
        // reads under outstanding shared borrows
        for t in ["guarded_reads_self_linked", "guarded_reads_self_unlinked", "guarded_reads_partner_linked", "guarded_reads_both_linked", "guarded_reads_unrelated_linked", "guarded_reads_unrelated_unlinked"] {
            rep.floor(t, 1000);
        }
        // delivery by following: every stamp order against the stored datum and against the partner's
        for slot in ["state", "command"] {
            for o in ["first", "older", "equal", "newer"] {
                rep.floor(&format!("follow_{}_delivered_{}-than-stored", slot, o), 500);
                rep.floor(&format!("follow_{}_delivered_{}-than-partners", slot, o), 300);
            }
            for o in ["older", "equal", "newer"] {
                rep.floor(&format!("follow_{}_delivered_new-value_{}-than-stored", slot, o), 500);
            }
            rep.floor(&format!("follow_{}_absent", slot), 500);
            rep.floor(&format!("follow_{}_err", slot), 500);
            rep.floor(&format!("follow_{}_stopped", slot), 100);
        }
        rep.floor("follow_update_expected_err", 500);
        // write bursts between reads
        for c in BURSTS {
            rep.floor(&format!("burst_n{}", c), 500);
            rep.floor(&format!("burst_n{}_state_on-linked-pair", c), 200);
        }
        for c in [65535, 65536, 65537] {
            rep.floor(&format!("burst_n{}", c), 1);
        }
        for pat in ["one-end", "alternating", "alternating-count-each", "one-end-then-the-other"] {
            rep.floor(&format!("burst_pattern_{}", pat), 500);
            rep.floor(&format!("burst_{}_state_on-linked-pair", pat), 500);
        }
        for t in ["burst_kind_state", "burst_kind_command", "burst_kind_state+command", "burst_values_identical", "burst_values_all-different", "burst_ends_linked", "burst_ends_not-linked"] {
            rep.floor(t, 500);
        }
        // writes under outstanding borrows
        for cfg in ["partner-refmut", "partner-refmut-both-written", "partner-ref", "unrelated-refmut", "unrelated-ref"] {
            for kind in ["state", "command", "state+command"] {
                rep.floor(&format!("guarded_write_{}_{}", cfg, kind), 200);
            }
        }
        rep.floor("sem_state_mean_representable", 1000);
        rep.floor("sem_cases_completed", fl(20_000, 3_000_000));
    }
    rep.finish(&args);
}
