//! C17 (single-threaded lanes): a Reference, its clones and its to_dyn! conversion denote one object.
//! Model = one integer cell + a drop counter. Runs natively (this binary through the driver) and,
//! with a small budget, under Miri (`c17 --miri`), where use-after-free / leaks / aliasing violations
//! become diagnostics.
use rrtk::*;
use rrtk_mon::*;
use std::sync::atomic::{AtomicU32, Ordering};
use std::sync::{Arc, Mutex, RwLock};
pub trait Tr {
    fn val(&self) -> u64;
    fn set_val(&mut self, v: u64);
}
struct P {
    v: u64,
    drops: Arc<AtomicU32>,
}
impl Tr for P {
    fn val(&self) -> u64 { self.v }
    fn set_val(&mut self, v: u64) { self.v = v; }
}
impl Drop for P {
    fn drop(&mut self) { self.drops.fetch_add(1, Ordering::SeqCst); }
}
enum H {
    Concrete(Reference<P>),
    Dyn(Reference<dyn Tr>),
}
impl H {
    fn read(&self) -> u64 { match self { H::Concrete(r) => r.borrow().val(), H::Dyn(r) => r.borrow().val() } }
    fn read_via_mut(&self) -> u64 { match self { H::Concrete(r) => r.borrow_mut().val(), H::Dyn(r) => r.borrow_mut().val() } }
    fn write(&self, v: u64) { match self { H::Concrete(r) => r.borrow_mut().set_val(v), H::Dyn(r) => r.borrow_mut().set_val(v) } }
    fn dup(&self) -> H { match self { H::Concrete(r) => H::Concrete(r.clone()), H::Dyn(r) => H::Dyn(r.clone()) } }
}
const VARIANTS: [&str; 6] = ["Ptr", "RcRefCell", "PtrRwLock", "PtrMutex", "ArcRwLock", "ArcMutex"];
/// variants the `to_dyn!` macro lists
fn macro_lists(v: usize) -> bool { v <= 2 }
/// what must be reclaimed by the harness for the raw-pointer variants
enum Raw { P(*mut P), Rw(*mut RwLock<P>), Mx(*mut Mutex<P>), None }
fn make(variant: usize, drops: &Arc<AtomicU32>) -> (Reference<P>, Raw) {
    let p = P { v: 0, drops: drops.clone() };
    match variant {
        0 => { let b = Box::into_raw(Box::new(p)); (unsafe { Reference::from_ptr(b) }, Raw::P(b)) }
        1 => (rc_ref_cell_reference(p), Raw::None),
        2 => { let b = Box::into_raw(Box::new(RwLock::new(p))); (unsafe { Reference::from_ptr_rw_lock(b as *const _) }, Raw::Rw(b)) }
        3 => { let b = Box::into_raw(Box::new(Mutex::new(p))); (unsafe { Reference::from_ptr_mutex(b as *const _) }, Raw::Mx(b)) }
        4 => (arc_rw_lock_reference(p), Raw::None),
        _ => (arc_mutex_reference(p), Raw::None),
    }
}
fn one_sequence(rep: &mut Report, sub: &'static str, case: u64, variant: usize, rng: &mut Rng, maxlen: usize) {
    let name = VARIANTS[variant];
    let drops = Arc::new(AtomicU32::new(0));
    let (first, raw) = make(variant, &drops);
    let mut handles: Vec<H> = vec![H::Concrete(first)];
    let mut model: u64 = 0;
    let mut next: u64 = 1 + case * 1000;
    let len = 1 + rng.usize(maxlen);
    let mut trace = String::new();
    let mut ops_mask = 0u32;
    for step in 0..len {
        if handles.is_empty() { break; }
        let h = rng.usize(handles.len());
        let op = rng.below(6);
        ops_mask |= 1 << op;
        rep.eval();
        match op {
            0 => { handles.push(handles[h].dup()); trace.push_str(&format!("clone({}) ", h)); rep.tally("op/clone"); }
            1 => {
                if handles.len() > 1 || rng.chance(0.3) {
                    handles.swap_remove(h);
                    trace.push_str(&format!("drop({}) ", h));
                    rep.tally("op/drop-handle");
                    let d = drops.load(Ordering::SeqCst);
                    let expect_dropped = handles.is_empty() && matches!(variant, 1 | 4 | 5);
                    if (d > 0) != expect_dropped || d > 1 {
                        rep.violation(&format!("C17/target-lifetime/{}", name), sub, case, format!("after {}: {} live handles, target drop count {} (expected {}); variant {}", trace, handles.len(), d, expect_dropped as u32, name));
                        return;
                    }
                }
            }
            2 => {
                let got = handles[h].read();
                trace.push_str(&format!("read({}) ", h));
                rep.tally("op/borrow-read");
                if got != model { rep.violation(&format!("C17/stale-read/{}", name), sub, case, format!("{}: handle {} reads {} but the last write was {}; variant {}", trace, h, got, model, name)); return; }
            }
            3 => {
                model = next; next += 1;
                handles[h].write(model);
                trace.push_str(&format!("write({},{}) ", h, model));
                rep.tally("op/borrow_mut-write");
                // every live handle must observe it, through borrow() and through borrow_mut()
                for (i, x) in handles.iter().enumerate() {
                    let (a, b) = (x.read(), x.read_via_mut());
                    if a != model || b != model {
                        rep.violation(&format!("C17/write-not-shared/{}", name), sub, case, format!("{}: handle {} reads {} / {} after write {}; variant {}", trace, i, a, b, model, name));
                        return;
                    }
                }
            }
            4 => {
                // to_dyn! (the macro under test), only from a concrete handle
                if let H::Concrete(r) = &handles[h] {
                    let c = r.clone();
                    trace.push_str(&format!("to_dyn({}) ", h));
                    // half of the time the macro argument is an expression with a side effect (a slot that is emptied by
                    // reading it): a macro that evaluates its argument twice converts the wrong thing or panics
                    let side_effect = rng.chance(0.5);
                    let mut slot = Some(c.clone());
                    let conv = if side_effect { catch(|| to_dyn!(Tr, slot.take().unwrap())) } else { catch(|| to_dyn!(Tr, c)) };
                    match conv {
                        Ok(d) => {
                            rep.tally(&format!("to_dyn_ok/{}", name));
                            if !macro_lists(variant) { rep.tally("to_dyn_unlisted_variant_worked"); }
                            // aliasing through the trait object
                            model = next; next += 1;
                            d.borrow_mut().set_val(model);
                            let back = handles[h].read();
                            if back != model { rep.violation(&format!("C17/to_dyn-not-aliasing/{}", name), sub, case, format!("{}: wrote {} through the trait object, original handle reads {}; variant {}", trace, model, back, name)); return; }
                            handles.push(H::Dyn(d));
                        }
                        Err(m) => {
                            if macro_lists(variant) { rep.violation(&format!("C17/to_dyn-panics/{}", name), sub, case, format!("{}: to_dyn! panicked ({}) for a variant the macro lists; variant {}", trace, m, name)); return; }
                            rep.tally("to_dyn_unlisted_variant_unimplemented");
                            // the moved-in clone was consumed by the panic path; nothing else changes
                        }
                    }
                }
            }
            _ => {
                // overlapping shared borrows where the variant allows them (RefCell / RwLock / Ptr), then release
                if matches!(variant, 0 | 1 | 2 | 4) {
                    let h2 = rng.usize(handles.len());
                    let (a, b) = match (&handles[h], &handles[h2]) {
                        (H::Concrete(x), H::Concrete(y)) => { let (g1, g2) = (x.borrow(), y.borrow()); (g1.val(), g2.val()) }
                        (x, y) => (x.read(), y.read()),
                    };
                    rep.tally("op/two-shared-borrows");
                    if a != model || b != model { rep.violation(&format!("C17/stale-read/{}", name), sub, case, format!("{}: shared borrows read {} {} expected {}; variant {}", trace, a, b, model, name)); return; }
                }
            }
        }
        let _ = step;
    }
    rep.distinct((variant, ops_mask, len.min(6)));
    if rep.want_sample(sub) { rep.sample(sub, format!("{}: {}", name, trace)); }
    // drop every handle: Rc/Arc targets die exactly once now, pointer targets never
    handles.clear();
    let d = drops.load(Ordering::SeqCst);
    let expect = matches!(variant, 1 | 4 | 5) as u32;
    rep.eval();
    if d != expect { rep.violation(&format!("C17/target-lifetime/{}", name), sub, case, format!("{} then all handles dropped: target drop count {} expected {}; variant {}", trace, d, expect, name)); }
    rep.tally(&format!("sequences/{}", name));
    // reclaim the leaked targets of the pointer variants (keeps Miri's leak checker meaningful)
    unsafe { match raw { Raw::P(p) => drop(Box::from_raw(p)), Raw::Rw(p) => drop(Box::from_raw(p)), Raw::Mx(p) => drop(Box::from_raw(p)), Raw::None => {} } }
}
fn main() {
    let args = Args::parse();
    let miri = std::env::args().any(|a| a == "--miri");
    let mut rep = Report::new("C17", &args);
    let (q, t) = if miri { (60, 60) } else { (30_000, 1_500_000) };
    for case in args.cases("sequences", q, t) {
        let variant = (case % 6) as usize;
        let mut rng = Rng::new(args.seed, 1701, case);
        one_sequence(&mut rep, "sequences", case, variant, &mut rng, 12);
    }
    // static-making macros: each call site denotes ONE object, clones alias it
    if args.mine("statics", 0) {
        fn s_ptr() -> Reference<u64> { static_reference!(u64, 0u64) }
        fn s_rw() -> Reference<u64> { static_rw_lock_reference!(u64, 0u64) }
        fn s_mx() -> Reference<u64> { static_mutex_reference!(u64, 0u64) }
        for (name, f) in [("static_reference!", s_ptr as fn() -> Reference<u64>), ("static_rw_lock_reference!", s_rw), ("static_mutex_reference!", s_mx)] {
            let (a, b) = (f(), f());
            let c = a.clone();
            for k in 1..=5u64 {
                *a.borrow_mut() += k;
                rep.eval();
                rep.distinct(("statics", name, k));
                let x = *a.borrow(); // one guard at a time: the mutex variant would self-deadlock otherwise
                let y = *b.borrow();
                let z = *c.borrow();
                if !(x == y && y == z) { rep.violation(&format!("C17/static-macro-not-shared/{}", name), "statics", 0, format!("{}: after += {} the three handles read {} {} {}", name, k, x, y, z)); break; }
            }
        }
        rep.sample("statics", "static_reference! / static_rw_lock_reference! / static_mutex_reference!: two calls of the same site + a clone alias one object".into());
    }
    if !miri {
        for v in VARIANTS { rep.floor(&format!("sequences/{}", v), 100); }
        for v in &VARIANTS[..3] { rep.floor(&format!("to_dyn_ok/{}", v), 100); }
    }
    rep.finish(&args);
}
