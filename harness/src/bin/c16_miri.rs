//! C16, Miri lane (built with hooks OFF): executes the reached `unsafe` code of rrtk under the
//! interpreter so that an uninitialised read, out-of-bounds access, dangling reference or aliasing
//! violation becomes a diagnostic. Usage: c16_miri <scenario> <max_arity> [<shard> <nshards>]
//! Prints `MIRI-DONE <scenario> calls=<n> panics=<n>`; per-case panics are caught and printed as
//! `MIRI-PANIC ...`. No numeric oracle decides anything here except the cheap skip-and-compact fold.
use rrtk::devices::wrappers::*;
use rrtk::devices::*;
use rrtk::*;
use rrtk_mon::nary::{check, digits};
use rrtk_mon::*;
use std::cell::RefCell;
type T<'a> = RefCell<Terminal<'a, E>>;
fn set_state(t: &T, time: i64, s: State) { let _ = Settable::<Datum<State>, E>::set(&mut *t.borrow_mut(), Datum::new(Time(time), s)); }
fn set_cmd(t: &T, time: i64, c: Command) { let _ = Settable::<Datum<Command>, E>::set(&mut *t.borrow_mut(), Datum::new(Time(time), c)); }
fn reads(t: &T) -> (Out<State>, Out<Command>, Out<TerminalData>) {
    let b = t.borrow();
    (<Terminal<E> as Getter<State, E>>::get(&b), <Terminal<E> as Getter<Command, E>>::get(&b), <Terminal<E> as Getter<TerminalData, E>>::get(&b))
}
fn st(x: f32) -> State { State::new_raw(x, x * 0.5, x * 0.25) }
fn axle_scn<const N: usize>() {
    let ext: Vec<T> = (0..N).map(|_| Terminal::new()).collect();
    let mut ax = Axle::<N, E>::new();
    for i in 0..N { let _ = reads(ax.get_terminal(i)); }
    // out-of-range indices: a bounds-check panic is the safe outcome (caught); a reference past the end is UB for Miri to see
    for idx in [N, N + 1, usize::MAX] { let _ = catch(|| ax.get_terminal(idx).try_borrow().is_ok()); }
    for i in 0..N { connect(&ext[i], ax.get_terminal(i)); }
    for i in 0..N { if i % 2 == 0 { set_state(&ext[i], i as i64 + 1, st(i as f32 + 1.0)); } else { set_cmd(ax.get_terminal(i), i as i64 + 10, Command::Velocity(i as f32)); } }
    let _ = ax.update();
    for i in 0..N { let _ = reads(ax.get_terminal(i)); let _ = reads(&ext[i]); }
    for i in 0..N { ax.get_terminal(i).borrow_mut().disconnect(); }
    let _ = ax.update();
}
struct Motor { data: SettableData<f32, E>, log: Vec<f32> }
impl Settable<f32, E> for Motor {
    fn impl_set(&mut self, v: f32) -> NothingOrError<E> { self.log.push(v); Ok(()) }
    fn get_settable_data_ref(&self) -> &SettableData<f32, E> { &self.data }
    fn get_settable_data_mut(&mut self) -> &mut SettableData<f32, E> { &mut self.data }
}
impl Updatable<E> for Motor { fn update(&mut self) -> NothingOrError<E> { self.update_following_data() } }
struct Enc { t: i64 }
impl Getter<State, E> for Enc { fn get(&self) -> Out<State> { if self.t % 3 == 0 { Ok(None) } else { Ok(Some(Datum::new(Time(self.t), st(self.t as f32)))) } } }
impl Updatable<E> for Enc { fn update(&mut self) -> NothingOrError<E> { self.t += 1; Ok(()) } }

// ---- to_dyn! on a Reference that is the ONLY handle to its target: if the conversion succeeds the result
// must keep the target alive (a conversion through a raw pointer of an Rc/Arc would drop it)
pub trait Tr { fn v(&self) -> u64; }
struct Tgt { v: u64, dropped: std::sync::Arc<std::sync::atomic::AtomicBool> }
impl Tr for Tgt { fn v(&self) -> u64 { self.v } }
impl Drop for Tgt { fn drop(&mut self) { self.dropped.store(true, std::sync::atomic::Ordering::SeqCst); } }
/// returns (variant name, Ok(None) = macro panicked (not supported), Ok(Some(value read)), Err(description))
fn to_dyn_sole_handle(variant: usize) -> (&'static str, Result<Option<u64>, String>) {
    use std::sync::atomic::Ordering;
    let flag = std::sync::Arc::new(std::sync::atomic::AtomicBool::new(false));
    let t = Tgt { v: 41 + variant as u64, dropped: flag.clone() };
    let (name, r): (&'static str, Reference<Tgt>) = match variant {
        0 => ("RcRefCell", rc_ref_cell_reference(t)),
        1 => ("ArcRwLock", arc_rw_lock_reference(t)),
        _ => ("ArcMutex", arc_mutex_reference(t)),
    };
    let conv = catch(move || to_dyn!(Tr, r));
    match conv {
        Err(_) => (name, Ok(None)),
        Ok(d) => {
            if flag.load(Ordering::SeqCst) { return (name, Err(format!("to_dyn! on the only {} handle succeeded but the target was dropped while the trait-object Reference is alive", name))); }
            let got = d.borrow().v();
            let c = d.clone();
            drop(d);
            if flag.load(Ordering::SeqCst) { return (name, Err(format!("target of a {} Reference dropped while a clone of the trait-object Reference is alive", name))); }
            let got2 = c.borrow().v();
            drop(c);
            if got != 41 + variant as u64 || got2 != got { return (name, Err(format!("trait-object Reference reads {} / {}", got, got2))); }
            if !flag.load(Ordering::SeqCst) { return (name, Err(format!("target of a {} Reference never dropped after the last handle", name))); }
            (name, Ok(Some(got)))
        }
    }
}
fn main() {
    let a: Vec<String> = std::env::args().collect();
    let scenario = a.get(1).cloned().unwrap_or_default();
    let max_arity: usize = a.get(2).and_then(|s| s.parse().ok()).unwrap_or(8);
    let shard: u64 = a.get(3).and_then(|s| s.parse().ok()).unwrap_or(0);
    let nshards: u64 = a.get(4).and_then(|s| s.parse().ok()).unwrap_or(1).max(1);
    silence_panics();
    let (mut calls, mut panics) = (0u64, 0u64);
    match scenario.as_str() {
        "nary-sum" | "nary-product" => {
            let product = scenario == "nary-product";
            for n in 1..=max_arity {
                // all assignments of {absent, present, error} up to arity 5, all absent/present patterns above
                let (base, total) = if n <= 5 { (3u64, 3u64.pow(n as u32)) } else { (2u64, 1u64 << n) };
                for code in 0..total {
                    if (code + n as u64) % nshards != shard { continue; }
                    let mut pat = digits(code, n, base);
                    // every third pattern: present inputs become read-once inputs (present on the first poll only)
                    if code % 3 == 2 { for p in pat.iter_mut() { if *p == 1 { *p = 4; } } }
                    for quantity in [false, true] {
                        let mut rng = Rng::new(1, 1690, code * 31 + n as u64);
                        calls += 1;
                        match catch(|| check(n, &pat, &mut rng, product, quantity)) {
                            Ok(Ok(())) => {}
                            Ok(Err(m)) => { println!("MIRI-MISMATCH {} {}", scenario, m); panics += 1; }
                            Err(m) => { println!("MIRI-PANIC {} arity {} pattern {:?}: {}", scenario, n, pat, m); panics += 1; }
                        }
                    }
                }
            }
        }
        "terminal" => {
            for combo in 0..16u32 {
                let (x, y): (T, T) = (Terminal::new(), Terminal::new());
                if combo & 1 != 0 { connect(&x, &y); }
                if combo & 2 != 0 { set_state(&x, 3, st(1.0)); }
                if combo & 4 != 0 { set_state(&y, 5, st(2.0)); }
                if combo & 8 != 0 { set_cmd(&x, 4, Command::Position(1.0)); set_cmd(&y, 6, Command::Acceleration(2.0)); }
                let _ = reads(&x);
                let _ = reads(&y);
                connect(&x, &y);
                connect(&y, &x);
                let _ = reads(&x);
                x.borrow_mut().disconnect();
                let _ = reads(&y);
                let _ = x.borrow_mut().update();
                calls += 6;
            }
        }
        "axle" => {
            macro_rules! ax { ($($n:literal),*) => { $( if $n <= max_arity { calls += 1; if let Err(m) = catch(|| axle_scn::<$n>()) { println!("MIRI-PANIC axle {}: {}", $n, m); panics += 1; } } )* } }
            ax!(0, 1, 2, 3, 4, 5, 6, 7, 8, 9, 10);
        }
        "devices" => {
            let ext: Vec<T> = (0..3).map(|_| Terminal::new()).collect();
            {
                let mut d = Invert::<E>::new();
                connect(&ext[0], d.get_terminal_1());
                set_state(&ext[0], 1, st(1.0)); set_cmd(d.get_terminal_2(), 2, Command::Velocity(1.0));
                let _ = d.update(); set_state(d.get_terminal_2(), 3, st(2.0)); let _ = d.update();
                let _ = reads(d.get_terminal_1()); let _ = reads(d.get_terminal_2()); let _ = reads(&ext[0]);
                d.get_terminal_1().borrow_mut().disconnect();
                calls += 2;
            }
            {
                let mut d = GearTrain::<E>::new([10.0, 20.0, 30.0]);
                connect(&ext[1], d.get_terminal_2());
                set_state(&ext[1], 1, st(1.0)); set_cmd(d.get_terminal_1(), 2, Command::Position(1.0));
                let _ = d.update(); set_state(d.get_terminal_1(), 3, st(2.0)); let _ = d.update();
                let _ = reads(d.get_terminal_1()); let _ = reads(d.get_terminal_2());
                d.get_terminal_2().borrow_mut().disconnect();
                calls += 2;
            }
            for mode in 0..4 {
                let mut d = match mode { 0 => Differential::<E>::with_distrust(DifferentialDistrust::Side1), 1 => Differential::with_distrust(DifferentialDistrust::Side2), 2 => Differential::with_distrust(DifferentialDistrust::Sum), _ => Differential::new() };
                connect(&ext[2], d.get_sum());
                set_state(&ext[2], 1, st(3.0)); set_state(d.get_side_1(), 2, st(1.0)); let _ = d.update();
                set_state(d.get_side_2(), 3, st(2.0)); let _ = d.update();
                let _ = reads(d.get_side_1()); let _ = reads(d.get_side_2()); let _ = reads(d.get_sum());
                d.get_sum().borrow_mut().disconnect();
                calls += 2;
            }
        }
        "wrappers" => {
            let ext: Vec<T> = (0..3).map(|_| Terminal::new()).collect();
            {
                let mut w = ActuatorWrapper::new(RecSettable::<TerminalData>::new());
                connect(&ext[0], w.get_terminal());
                let _ = w.update(); set_state(&ext[0], 1, st(1.0)); set_cmd(&ext[0], 2, Command::Velocity(2.0)); let _ = w.update();
                w.get_terminal().borrow_mut().disconnect();
                calls += 2;
            }
            {
                let mut w = GetterStateDeviceWrapper::new(Enc { t: 0 });
                connect(&ext[1], w.get_terminal());
                for _ in 0..4 { let _ = w.update(); let _ = reads(&ext[1]); }
                w.get_terminal().borrow_mut().disconnect();
                calls += 4;
            }
            {
                let k = PIDKValues::new(1.0, 0.1, 0.01);
                let mut w = PIDWrapper::new(Motor { data: SettableData::new(), log: Vec::new() }, Time(0), st(0.0), Command::Position(5.0), PositionDerivativeDependentPIDKValues::new(k, k, k));
                connect(&ext[2], w.get_terminal());
                for i in 1..5 { set_state(&ext[2], i * 1_000_000, st(i as f32)); if i == 3 { set_cmd(&ext[2], i * 1_000_000, Command::Velocity(1.0)); } let _ = w.update(); }
                w.get_terminal().borrow_mut().disconnect();
                calls += 4;
            }
        }
        "to_dyn" => {
            for variant in 0..3 {
                calls += 1;
                let (name, r) = to_dyn_sole_handle(variant);
                if let Err(m) = r { println!("MIRI-MISMATCH to_dyn {}: {}", name, m); panics += 1; }
            }
        }
        other => { println!("MIRI-BAD-SCENARIO {}", other); std::process::exit(2); }
    }
    println!("MIRI-DONE {} calls={} panics={}", scenario, calls, panics);
}
