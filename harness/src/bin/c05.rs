//! C05 — stateful streams: no stale errors, reset erases history, get() is pure.
//! Purely metamorphic / structural oracles (bit-exact comparisons between runs of the real code
//! and provenance of errors); no numeric model here (C04/C10/C11/C12 own the numbers).
use rrtk::streams::control::*;
use rrtk::streams::converters::*;
use rrtk::streams::flow::*;
use rrtk::streams::math::*;
use rrtk::*;
use rrtk_mon::*;
#[derive(Clone, Debug, PartialEq)]
enum Obs {
    Err(i32),
    None,
    Some(i64, [u32; 3], (i8, i8)),
    Panic,
}
fn ecode(e: &Error<E>) -> i32 {
    match e {
        Error::Other(x) => *x as i32,
        Error::FromNone => -1,
        _ => -2,
    }
}
fn unit_exps(u: Unit) -> (i8, i8) {
    for m in -3..=3i8 {
        for s in -4..=4i8 {
            if ueq(u, Unit::new(m, s)) {
                return (m, s);
            }
        }
    }
    (99, 99)
}
fn obs_f(o: Out<f32>) -> Obs {
    match o {
        Err(e) => Obs::Err(ecode(&e)),
        Ok(None) => Obs::None,
        Ok(Some(d)) => Obs::Some(d.time.0, [cbits(d.value), 0, 0], (0, 0)),
    }
}
fn obs_q(o: Out<Quantity>) -> Obs {
    match o {
        Err(e) => Obs::Err(ecode(&e)),
        Ok(None) => Obs::None,
        Ok(Some(d)) => Obs::Some(d.time.0, [cbits(d.value.value), 0, 0], unit_exps(d.value.unit)),
    }
}
fn obs_s(o: Out<State>) -> Obs {
    match o {
        Err(e) => Obs::Err(ecode(&e)),
        Ok(None) => Obs::None,
        Ok(Some(d)) => Obs::Some(d.time.0, [cbits(d.value.position), cbits(d.value.velocity), cbits(d.value.acceleration)], (0, 0)),
    }
}
/// One history event: an input outcome plus (CommandPID) an optional set() before the update or
/// (freeze) the condition outcome.
#[derive(Clone, Debug, PartialEq)]
struct Evt {
    input: Ev<[f32; 3]>,
    set_cmd: Option<Command>,
    cond: Option<bool>,
    /// index into UNITS of the unit carried by a present Quantity payload (changes only right after an event that
    /// the stream documents as erasing its history; streams with a fixed input dimension ignore it)
    unit: u8,
}
const UNITS: [Unit; 4] = [MILLIMETER, MILLIMETER_PER_SECOND, DIMENSIONLESS, SECOND];
trait Sut {
    /// apply the event: optional set(), put the input outcome in place, update(); returns update result
    fn step(&mut self, e: &Evt) -> Result<(), i32>;
    fn get(&self) -> Obs;
    /// put another outcome in place at the inputs WITHOUT calling update (the next step overwrites it)
    fn perturb(&mut self, rng: &mut Rng);
}
fn perturb_src<T: Clone + 'static>(src: &Src<T>, rng: &mut Rng, v: T) {
    match rng.below(4) { 0 => src.none(), 1 => src.err(rng.err_code()), _ => src.some(rng.stamp(), v) }
}
#[derive(Clone, Debug)]
struct Params {
    kind: usize,
    f1: f32,
    f2: f32,
    f3: f32,
    f4: f32,
    window: i64,
    cmd: Command,
}
const NAMES: [&str; 14] = [
    "PIDControllerStream", "CommandPID", "EWMAStream<f32>", "EWMAStream<Quantity>", "MovingAverageStream<f32>",
    "MovingAverageStream<Quantity>", "IntegralStream", "DerivativeStream", "AccelerationToState", "VelocityToState",
    "PositionToState", "FloatToQuantity", "QuantityToFloat", "FreezeStream",
];
/// which event kinds the stream treats as a reset: (none_resets, err_resets, every_update_resets)
fn reset_rule(kind: usize) -> (bool, bool, bool) {
    match kind {
        0 | 1 | 6 | 7 => (true, true, false),
        2 | 3 | 4 | 5 | 8 | 9 | 10 => (false, true, false),
        11 | 12 => (true, true, true),
        _ => (false, false, false),
    }
}
fn ignores_none(kind: usize) -> bool {
    matches!(kind, 2 | 3 | 4 | 5 | 8 | 9 | 10)
}
macro_rules! sut {
    ($name:ident, $payload:ty, $stream:ty, $conv:expr, $obs:expr) => {
        struct $name {
            src: Src<$payload>,
            s: $stream,
        }
        impl Sut for $name {
            fn step(&mut self, e: &Evt) -> Result<(), i32> {
                let conv = $conv;
                match &e.input {
                    Ev::Some(t, v) => self.src.some(*t, conv(*v, UNITS[e.unit as usize])),
                    Ev::None => self.src.none(),
                    Ev::Err(c) => self.src.err(*c),
                }
                self.s.update().map_err(|e| ecode(&e))
            }
            fn get(&self) -> Obs {
                $obs(self.s.get())
            }
            fn perturb(&mut self, rng: &mut Rng) {
                let conv = $conv;
                let cur = match &self.src.0.borrow().out { Ok(Some(d)) => Some(d.value.clone()), _ => None };
                // same payload type and unit as the value in place (or a default one), other value / stamp / category
                let v = match cur { Some(c) if rng.chance(0.5) => c, _ => conv([rng.moderate(1e4), 0.0, 0.0], MILLIMETER) };
                perturb_src(&self.src, rng, v);
            }
        }
    };
}
type DF = dyn Getter<f32, E>;
type DQ = dyn Getter<Quantity, E>;
sut!(SPid, f32, PIDControllerStream<DF, E>, |v: [f32; 3], _u: Unit| v[0], obs_f);
sut!(SEwmaF, f32, EWMAStream<f32, DF, E>, |v: [f32; 3], _u: Unit| v[0], obs_f);
sut!(SEwmaQ, Quantity, EWMAStream<Quantity, DQ, E>, |v: [f32; 3], u: Unit| Quantity::new(v[0], u), obs_q);
sut!(SMaF, f32, MovingAverageStream<f32, DF, E>, |v: [f32; 3], _u: Unit| v[0], obs_f);
sut!(SMaQ, Quantity, MovingAverageStream<Quantity, DQ, E>, |v: [f32; 3], u: Unit| Quantity::new(v[0], u), obs_q);
sut!(SInt, Quantity, IntegralStream<DQ, E>, |v: [f32; 3], u: Unit| Quantity::new(v[0], u), obs_q);
sut!(SDrv, Quantity, DerivativeStream<DQ, E>, |v: [f32; 3], u: Unit| Quantity::new(v[0], u), obs_q);
sut!(SA2S, Quantity, AccelerationToState<DQ, E>, |v: [f32; 3], _u: Unit| Quantity::new(v[0], MILLIMETER_PER_SECOND_SQUARED), obs_s);
sut!(SV2S, Quantity, VelocityToState<DQ, E>, |v: [f32; 3], _u: Unit| Quantity::new(v[0], MILLIMETER_PER_SECOND), obs_s);
sut!(SP2S, Quantity, PositionToState<DQ, E>, |v: [f32; 3], _u: Unit| Quantity::new(v[0], MILLIMETER), obs_s);
sut!(SF2Q, f32, FloatToQuantity<Cell<f32>, E>, |v: [f32; 3], _u: Unit| v[0], obs_q);
sut!(SQ2F, Quantity, QuantityToFloat<DQ, E>, |v: [f32; 3], u: Unit| Quantity::new(v[0], u), obs_f);
struct SCmdPid {
    src: Src<State>,
    s: CommandPID<dyn Getter<State, E>, E>,
}
impl Sut for SCmdPid {
    fn step(&mut self, e: &Evt) -> Result<(), i32> {
        if let Some(c) = e.set_cmd {
            let _ = self.s.set(c);
        }
        match &e.input {
            Ev::Some(t, v) => self.src.some(*t, State::new_raw(v[0], v[1], v[2])),
            Ev::None => self.src.none(),
            Ev::Err(c) => self.src.err(*c),
        }
        self.s.update().map_err(|e| ecode(&e))
    }
    fn get(&self) -> Obs {
        obs_f(self.s.get())
    }
    fn perturb(&mut self, rng: &mut Rng) {
        let v = State::new_raw(rng.moderate(1e4), rng.moderate(1e3), rng.moderate(1e2));
        perturb_src(&self.src, rng, v);
    }
}
struct SFreeze {
    src: Src<f32>,
    cond: Src<bool>,
    s: FreezeStream<f32, dyn Getter<bool, E>, DF, E>,
}
impl Sut for SFreeze {
    fn step(&mut self, e: &Evt) -> Result<(), i32> {
        match &e.input {
            Ev::Some(t, v) => self.src.some(*t, v[0]),
            Ev::None => self.src.none(),
            Ev::Err(c) => self.src.err(*c),
        }
        match e.cond {
            Some(b) => self.cond.some(0, b),
            None => self.cond.none(),
        }
        self.s.update().map_err(|e| ecode(&e))
    }
    fn get(&self) -> Obs {
        obs_f(self.s.get())
    }
    fn perturb(&mut self, rng: &mut Rng) {
        if rng.chance(0.7) { let v = rng.moderate(1e4); perturb_src(&self.src, rng, v); }
        if rng.chance(0.7) { match rng.below(3) { 0 => self.cond.none(), 1 => self.cond.some(0, false), _ => self.cond.some(0, true) } }
    }
}
fn make(p: &Params, cmd: Command) -> Box<dyn Sut> {
    match p.kind {
        0 => { let src = Src::<f32>::new(); let s = PIDControllerStream::new(src.dynref(), p.f1, PIDKValues::new(p.f2, p.f3, p.f4)); Box::new(SPid { src, s }) }
        1 => {
            let src = Src::<State>::new();
            let k = PositionDerivativeDependentPIDKValues::new(PIDKValues::new(p.f1, p.f2, p.f3), PIDKValues::new(p.f2, p.f3, p.f4), PIDKValues::new(p.f3, p.f4, p.f1));
            let s = CommandPID::new(src.dynref(), cmd, k);
            Box::new(SCmdPid { src, s })
        }
        2 => { let src = Src::<f32>::new(); let s = EWMAStream::new(src.dynref(), p.f1); Box::new(SEwmaF { src, s }) }
        3 => { let src = Src::<Quantity>::new(); let s = EWMAStream::new(src.dynref(), p.f1); Box::new(SEwmaQ { src, s }) }
        4 => { let src = Src::<f32>::new(); let s = MovingAverageStream::new(src.dynref(), Time(p.window)); Box::new(SMaF { src, s }) }
        5 => { let src = Src::<Quantity>::new(); let s = MovingAverageStream::new(src.dynref(), Time(p.window)); Box::new(SMaQ { src, s }) }
        6 => { let src = Src::<Quantity>::new(); let s = IntegralStream::new(src.dynref()); Box::new(SInt { src, s }) }
        7 => { let src = Src::<Quantity>::new(); let s = DerivativeStream::new(src.dynref()); Box::new(SDrv { src, s }) }
        8 => { let src = Src::<Quantity>::new(); let s = AccelerationToState::new(src.dynref()); Box::new(SA2S { src, s }) }
        9 => { let src = Src::<Quantity>::new(); let s = VelocityToState::new(src.dynref()); Box::new(SV2S { src, s }) }
        10 => { let src = Src::<Quantity>::new(); let s = PositionToState::new(src.dynref()); Box::new(SP2S { src, s }) }
        11 => { let src = Src::<f32>::new(); let s = FloatToQuantity::new(MILLIMETER_PER_SECOND, src.typed()); Box::new(SF2Q { src, s }) }
        12 => { let src = Src::<Quantity>::new(); let s = QuantityToFloat::new(src.dynref()); Box::new(SQ2F { src, s }) }
        _ => { let src = Src::<f32>::new(); let cond = Src::<bool>::new(); let s = FreezeStream::new(cond.dynref(), src.dynref()); Box::new(SFreeze { src, cond, s }) }
    }
}
fn gen_cmd(rng: &mut Rng) -> Command {
    let pd = *rng.pick(&[PositionDerivative::Position, PositionDerivative::Velocity, PositionDerivative::Acceleration]);
    Command::new(pd, rng.moderate(1e3))
}
/// History grammar with quotas: style 0 iid kinds, 1 runs separated by resets, 2 noise-heavy, 3 reset
/// followed by >=3 present.
fn gen_history(rng: &mut Rng, p: &Params, case: u64) -> Vec<Evt> {
    let len = 2 + rng.usize(47);
    let style = case % 4;
    let mut kinds: Vec<u8> = Vec::with_capacity(len);
    match style {
        0 => { for _ in 0..len { kinds.push(match rng.below(10) { 0..=5 => 0, 6 | 7 => 1, 8 => 2, _ => 3 }); } }
        1 => {
            while kinds.len() < len {
                let run = *rng.pick(&[1usize, 2, 3, 3, 5, 9]);
                for _ in 0..run { kinds.push(0); }
                for _ in 0..1 + rng.usize(2) { kinds.push(1 + rng.below(3) as u8); }
            }
            kinds.truncate(len);
        }
        2 => { for _ in 0..len { kinds.push(rng.below(4) as u8); } }
        _ => {
            let pre = rng.usize(6);
            for _ in 0..pre { kinds.push(if rng.chance(0.8) { 0 } else { 1 }); }
            kinds.push(1 + rng.below(3) as u8);
            for _ in 0..3 + rng.usize(6) { kinds.push(0); }
            while kinds.len() < len { kinds.push(match rng.below(10) { 0..=6 => 0, 7 => 1, 8 => 2, _ => 3 }); }
        }
    }
    // long silence: a few present samples, then 32..44 absent events in a row (no error), then present samples again, all
    // well inside the moving-average window: housekeeping keyed on "nothing arrived for N updates" only shows here
    let long_silence = case % 16 == 5;
    if long_silence {
        kinds.clear();
        for _ in 0..1 + rng.usize(3) { kinds.push(0); }
        for _ in 0..32 + rng.usize(13) { kinds.push(1); }
        while kinds.len() < 48 { kinds.push(if rng.chance(0.85) { 0 } else { 1 }); }
    }
    let nondecreasing_ok = matches!(p.kind, 2 | 3 | 4 | 5 | 11 | 12 | 13);
    let mut t = rng.range_i64(-1_000_000_000_000_000, 1_000_000_000_000_000);
    let mut const_dt = if rng.chance(0.3) { Some(rng.step_ns(1_000, 3_600_000_000_000)) } else { None };
    if long_silence { const_dt = Some((p.window / 100).max(1_000)); }
    let mut out = Vec::with_capacity(kinds.len());
    let mut cur_cmd = p.cmd;
    // unit of the Quantity payload: may change only when the previous event erased the stream's history (then a
    // newly constructed stream fed the rest would accept it, so the long-lived one has to as well)
    let (none_r, err_r, all_r) = reset_rule(p.kind);
    let unit_free = matches!(p.kind, 3 | 5 | 6 | 7 | 12);
    let mut unit = if unit_free { rng.below(4) as u8 } else { 0 };
    let mut prev_kind: Option<u8> = None;
    for k in kinds {
        let erased = all_r || match prev_kind { Some(1) => none_r, Some(2) | Some(3) => err_r, _ => false };
        if unit_free && erased && rng.chance(0.4) { unit = rng.below(4) as u8; }
        prev_kind = Some(k);
        let mut dt = const_dt.unwrap_or_else(|| rng.step_ns(1_000, 3_600_000_000_000));
        if nondecreasing_ok && rng.chance(0.15) { dt = 0; }
        t += dt;
        let input = match k {
            0 => Ev::Some(t, [rng.moderate(1e4), rng.moderate(1e3), rng.moderate(1e2)]),
            1 => Ev::None,
            2 => Ev::Err(1),
            _ => Ev::Err(if rng.chance(0.5) { 2 } else { 0 }), // 0 = the crate's own Error::FromNone
        };
        let set_cmd = if p.kind == 1 && rng.chance(0.2) {
            let c = match rng.below(3) {
                0 => cur_cmd,                                                  // set(same)
                1 => Command::new(PositionDerivative::from(cur_cmd), rng.moderate(1e3)), // same kind, other value
                _ => gen_cmd(rng),
            };
            if c != cur_cmd { cur_cmd = c; }
            Some(c)
        } else { None };
        let cond = if p.kind == 13 { match rng.below(5) { 0 | 1 => Some(false), 2 | 3 => Some(true), _ => None } } else { None };
        out.push(Evt { input, set_cmd, cond, unit });
    }
    out
}
/// `skip[i]` = do not call get() at all after event i (the outputs there are reported as Obs::Panic placeholders
/// and never compared): "any number of times" includes zero.
fn run_sparse(p: &Params, cmd0: Command, h: &[Evt], skip: &[bool]) -> Vec<Option<Obs>> {
    let mut s = make(p, cmd0);
    let mut outs = Vec::with_capacity(h.len());
    for (i, e) in h.iter().enumerate() {
        if catch(|| s.step(e)).is_err() { outs.push(Some(Obs::Panic)); break; }
        outs.push(if skip[i] { None } else { Some(s.get()) });
    }
    outs
}
fn run_all(p: &Params, cmd0: Command, h: &[Evt], extra_gets: Option<&mut Rng>) -> (Vec<Obs>, Vec<Result<(), i32>>, bool) {
    let mut s = make(p, cmd0);
    let mut outs = Vec::with_capacity(h.len());
    let mut upds = Vec::with_capacity(h.len());
    let mut pure = true;
    let mut rng = extra_gets;
    for e in h {
        if let Some(r) = rng.as_mut() {
            for _ in 0..r.below(4) { let _ = s.get(); }
        }
        let res = catch(|| s.step(e));
        match res {
            Ok(u) => upds.push(u),
            Err(_) => { outs.push(Obs::Panic); upds.push(Err(-99)); break; }
        }
        let g1 = s.get();
        let g2 = s.get();
        let g3 = s.get();
        if g1 != g2 || g2 != g3 { pure = false; }
        if let Some(r) = rng.as_mut() {
            // what the inputs return AFTER the update must not show through get() before the next update
            if r.chance(0.5) {
                s.perturb(r);
                if catch(|| s.get()).ok() != Some(g1.clone()) { pure = false; }
            }
        }
        outs.push(g1);
    }
    (outs, upds, pure)
}
fn main() {
    let args = Args::parse();
    let mut rep = Report::new("C05", &args);
    for kind in 0..14usize {
        let name = NAMES[kind];
        let sub: &'static str = Box::leak(format!("hist/{}", name).into_boxed_str());
        for case in args.cases(sub, 8_000, 400_000) {
            let mut rng = Rng::new(args.seed, 500 + kind as u64, case);
            let p = Params {
                kind,
                f1: if matches!(kind, 2 | 3) { match rng.below(4) { 0 => 0.0, 1 => 1.0, 2 => (2.0f32).powi(-(1 + rng.below(10) as i32)), _ => rng.unit() as f32 } } else { rng.moderate(1e2) },
                f2: rng.moderate(1e2), f3: rng.moderate(1e1), f4: rng.moderate(1e1),
                window: rng.step_ns(1, 36_000_000_000_000),
                cmd: gen_cmd(&mut rng),
            };
            let h = gen_history(&mut rng, &p, case);
            if case % 16 == 5 { rep.tally(&format!("long_silence_histories/{}", name)); }
            if h.windows(2).any(|w| w[0].unit != w[1].unit && matches!(w[1].input, Ev::Some(..))) { rep.tally(&format!("unit_changes_after_reset/{}", name)); }
            let (a, upd, pure) = run_all(&p, p.cmd, &h, None);
            rep.eval();
            let mut bigrams = 0u32;
            for w in h.windows(2) { bigrams |= 1 << (w[0].input.kind() * 4 + w[1].input.kind()); }
            rep.distinct((kind, bigrams, h.len() / 8));
            for e in &h { rep.tally(&format!("events/{}/{}", name, ["some", "none", "err", "err"][e.input.kind() as usize])); }
            if rep.want_sample(sub) { rep.sample(sub, format!("{} params={:?} history[..6]={:?} outputs[..6]={:?}", name, p, &h[..h.len().min(6)], &a[..a.len().min(6)])); }
            if a.iter().any(|o| *o == Obs::Panic) {
                rep.violation(&format!("C05/panic/{}", name), sub, case, format!("update or get panicked; params={:?} history={:?}", p, h));
                continue;
            }
            // (iv) purity: repeated get() identical, and extra get() calls between updates change nothing
            if !pure {
                rep.violation(&format!("C05/get-not-pure/{}", name), sub, case, format!("three successive get() differ; params={:?} history={:?}", p, h));
            }
            let mut r2 = Rng::new(args.seed, 900 + kind as u64, case);
            let (d, _, live_ok) = run_all(&p, p.cmd, &h, Some(&mut r2));
            rep.eval();
            rep.tally("input_changed_between_update_and_get_runs");
            if !live_ok {
                rep.violation(&format!("C05/get-reads-input-live/{}", name), sub, case, format!("get() changed after the input's outcome was changed WITHOUT an update; params={:?} history={:?}", p, h));
            }
            if d != a {
                rep.violation(&format!("C05/get-affects-later/{}", name), sub, case, format!("extra get() calls changed outputs; params={:?} history={:?} a={:?} d={:?}", p, h, a, d));
            }
            // two live instances of the same stream type with different parameters, fed the same timestamps but other values,
            // updated alternately: instance 1 must behave exactly as it does alone (nothing is shared between instances)
            {
                let mut r3 = Rng::new(args.seed, 1300 + kind as u64, case);
                let p2 = Params { kind, f1: if matches!(kind, 2 | 3) { r3.unit() as f32 } else { r3.moderate(1e2) }, f2: r3.moderate(1e2), f3: r3.moderate(1e1), f4: r3.moderate(1e1), window: r3.step_ns(1, 36_000_000_000_000), cmd: gen_cmd(&mut r3) };
                let h2: Vec<Evt> = h.iter().map(|e| { let mut e2 = e.clone(); if let Ev::Some(t, _) = e.input { if r3.chance(0.8) { e2.input = Ev::Some(t, [r3.moderate(1e4), r3.moderate(1e3), r3.moderate(1e2)]); } } e2 }).collect();
                let (mut s1, mut s2) = (make(&p, p.cmd), make(&p2, p2.cmd));
                let mut inter = Vec::with_capacity(h.len());
                let mut inter2 = Vec::with_capacity(h.len());
                let ok = catch(|| { for i in 0..h.len() { let _ = s1.step(&h[i]); inter.push(s1.get()); let _ = s2.step(&h2[i]); inter2.push(s2.get()); } }).is_ok();
                rep.eval();
                rep.tally("interleaved_instance_runs");
                let (alone2, _, _) = run_all(&p2, p2.cmd, &h2, None);
                if ok && !alone2.iter().any(|o| *o == Obs::Panic) && inter2 != alone2 {
                    let k = (0..inter2.len().min(alone2.len())).find(|&k| inter2[k] != alone2[k]);
                    rep.violation(&format!("C05/instances-not-independent/{}", name), sub, case, format!("second instance (params {:?}) run alone vs alternating with the first: first difference at event {:?} (alone {:?}, interleaved {:?}); first instance params={:?} history={:?}", p2, k, k.map(|k| &alone2[k]), k.map(|k| &inter2[k]), p, h));
                }
                if !ok || inter != a {
                    let k = (0..inter.len().min(a.len())).find(|&k| inter[k] != a[k]);
                    rep.violation(&format!("C05/instances-not-independent/{}", name), sub, case, format!("run alone vs alternating with a second {} (params {:?}): first difference at event {:?} (alone {:?}, interleaved {:?}{}); params={:?} history={:?}", name, p2, k, k.map(|k| &a[k]), k.map(|k| &inter[k]), if ok { "" } else { ", PANIC" }, p, h));
                }
            }
            // ... and reading at only some of the steps (zero get() calls elsewhere) changes nothing where it is read
            let skip: Vec<bool> = (0..h.len()).map(|_| r2.chance(0.6)).collect();
            let sp = run_sparse(&p, p.cmd, &h, &skip);
            rep.eval();
            rep.tally("sparse_observation_runs");
            for i in 0..sp.len().min(a.len()) {
                if let Some(o) = &sp[i] {
                    if *o != a[i] {
                        rep.violation(&format!("C05/get-schedule-affects-output/{}", name), sub, case, format!("event {}: read after every update gives {:?}, read only at steps {:?} gives {:?}; params={:?} history={:?}", i, a[i], skip.iter().enumerate().filter(|x| !*x.1).map(|x| x.0).collect::<Vec<_>>(), o, p, h));
                        break;
                    }
                }
            }
            if kind == 13 {
                // freeze state machine
                let mut last_passed = Obs::None;
                let mut none_since_pass = false;
                for (i, e) in h.iter().enumerate() {
                    let inp = match &e.input { Ev::Some(t, v) => Obs::Some(*t, [cbits(v[0]), 0, 0], (0, 0)), Ev::None => Obs::None, Ev::Err(c) => Obs::Err(ecode(&err_code(*c))) };
                    let ok = match e.cond {
                        None => { none_since_pass = true; rep.tally("freeze/cond_none"); a[i] == Obs::None }
                        Some(false) => { last_passed = inp.clone(); none_since_pass = false; rep.tally("freeze/cond_false"); a[i] == inp }
                        Some(true) => { rep.tally("freeze/cond_true"); a[i] == last_passed || (none_since_pass && a[i] == Obs::None) }
                    };
                    rep.eval();
                    if !ok {
                        rep.violation("C05/freeze-state-machine", sub, case, format!("step {} cond={:?} input={:?} got {:?} (last passed {:?}); history={:?}", i, e.cond, e.input, a[i], last_passed, h));
                        break;
                    }
                }
                continue;
            }
            // (i) error provenance
            for (i, e) in h.iter().enumerate() {
                if let Obs::Err(code) = a[i] {
                    rep.eval();
                    rep.tally(&format!("err_outputs/{}", name));
                    let ok = matches!(e.input, Ev::Err(c) if ecode(&err_code(c)) == code);
                    if !ok {
                        rep.violation(&format!("C05/stale-error/{}", name), sub, case, format!("after event {} = {:?} (update returned {:?}) get() = Err({}) which the input did not return at this update; params={:?} history={:?}", i, e.input, upd[i], code, p, h));
                        break;
                    }
                }
            }
            // (ii) reset == fresh
            let (none_r, err_r, all_r) = reset_rule(kind);
            let mut cur_cmd = p.cmd;
            let mut cmd_at = Vec::with_capacity(h.len());
            let mut resets: Vec<(usize, &'static str)> = Vec::new();
            for (i, e) in h.iter().enumerate() {
                cmd_at.push(cur_cmd); // command in force BEFORE event i's set
                let mut why = None;
                if let Some(c) = e.set_cmd { if c != cur_cmd { why = Some("set-different"); cur_cmd = c; } }
                match e.input { Ev::None if none_r => why = Some("none"), Ev::Err(_) if err_r => why = Some("err"), Ev::Some(..) if all_r => why = Some("every-update"), _ => {} }
                if let Some(w) = why { if i > 0 { resets.push((i, w)); } }
            }
            let mut chosen: Vec<(usize, &'static str)> = Vec::new();
            if !resets.is_empty() {
                chosen.push(resets[resets.len() - 1]);
                for _ in 0..2 { chosen.push(resets[rng.usize(resets.len())]); }
                chosen.dedup();
            }
            for (r, why) in chosen {
                let (b, _, _) = run_all(&p, cmd_at[r], &h[r..], None);
                rep.eval();
                rep.tally(&format!("fresh_comparisons/{}/{}", name, why));
                let later_present = h[r + 1..].iter().filter(|e| matches!(e.input, Ev::Some(..))).count();
                if later_present >= 3 { rep.tally(&format!("reset_then_3_present/{}", name)); }
                if b[..] != a[r..] {
                    let k = (0..b.len()).find(|&k| b[k] != a[r + k]).unwrap();
                    rep.violation(&format!("C05/reset-not-fresh/{}/{}", name, why), sub, case, format!("reset at event {} ({}); at event {} the stream gives {:?} but a fresh stream fed history[{}..] gives {:?}; params={:?} history={:?}", r, why, r + k, a[r + k], r, b[k], p, h));
                    break;
                }
            }
            // (iii') for streams that ignore absent samples the output right after an absent event is the output
            // right before it (a cached error is cleared to absent): deleting the event changes nothing
            if ignores_none(kind) {
                for (i, e) in h.iter().enumerate() {
                    if e.input != Ev::None { continue; }
                    rep.eval();
                    let expect = if i == 0 { Obs::None } else { match &a[i - 1] { Obs::Err(_) => Obs::None, o => o.clone() } };
                    if a[i] != expect {
                        rep.violation(&format!("C05/none-not-ignored/{}", name), sub, case, format!("event {} is absent: output went from {:?} to {:?}; params={:?} history={:?}", i, if i > 0 { Some(&a[i - 1]) } else { None }, a[i], p, h));
                        break;
                    }
                }
            }
            // (iii) None-deletion
            if ignores_none(kind) && h.iter().any(|e| e.input == Ev::None) {
                let keep: Vec<usize> = (0..h.len()).filter(|&i| h[i].input != Ev::None).collect();
                let h2: Vec<Evt> = keep.iter().map(|&i| h[i].clone()).collect();
                let (c, _, _) = run_all(&p, p.cmd, &h2, None);
                rep.eval();
                rep.tally(&format!("none_deletions/{}", name));
                for (j, &i) in keep.iter().enumerate() {
                    if c[j] != a[i] {
                        rep.violation(&format!("C05/none-not-ignored/{}", name), sub, case, format!("deleting the absent events changes the output at original event {}: with {:?} without {:?}; params={:?} history={:?}", i, a[i], c[j], p, h));
                        break;
                    }
                }
            }
        }
        if kind != 13 {
            let (n, e, all) = reset_rule(kind);
            if all { rep.floor(&format!("fresh_comparisons/{}/every-update", name), 20); } else {
                if n { rep.floor(&format!("fresh_comparisons/{}/none", name), 20); }
                if e { rep.floor(&format!("fresh_comparisons/{}/err", name), 20); }
            }
            rep.floor(&format!("reset_then_3_present/{}", name), 10);
            if matches!(kind, 3 | 5 | 6 | 7 | 12) { rep.floor(&format!("unit_changes_after_reset/{}", name), 10); }
        }
    }
    rep.floor("fresh_comparisons/CommandPID/set-different", 10);
    rep.floor("interleaved_instance_runs", 1000);
    rep.floor("freeze/cond_true", 100);
    rep.floor("freeze/cond_none", 100);
    rep.finish(&args);
}
