//! C01 — unit exponents compose additively, mismatches panic (dimension checking ON: debug build).
use rrtk::*;
use rrtk_mon::*;
include!("c01_constants.in");
fn u(m: i32, s: i32) -> Unit {
    Unit::new(m as i8, s as i8)
}
/// outcome of an operation: Ok(value bits?, unit) or panicked
#[derive(Debug)]
enum R {
    Q(f32, Unit),
    U(Unit),
    B(Option<std::cmp::Ordering>),
    Eq(bool),
    Panic,
}
fn run<T>(f: impl FnOnce() -> T, wrap: impl FnOnce(T) -> R) -> R {
    match catch(f) {
        Ok(v) => wrap(v),
        Err(_) => R::Panic,
    }
}
struct Ctx<'a> {
    rep: &'a mut Report,
    sub: &'static str,
    case: u64,
}
impl Ctx<'_> {
    fn expect_q(&mut self, form: &str, l: (i32, i32), r: (i32, i32), got: R, val: f32, unit: (i32, i32), detail: &str) {
        self.rep.eval();
        match got {
            R::Q(v, un) => {
                if !(un == u(unit.0, unit.1)) {
                    self.rep.violation(&format!("C01/unit/{}", form), self.sub, self.case,
                        format!("{} lhs={:?} rhs={:?}: result unit {:?}, expected exponents {:?}; {}", form, l, r, un, unit, detail));
                }
                if !(v.to_bits() == val.to_bits() || (v.is_nan() && val.is_nan())) {
                    self.rep.violation(&format!("C01/value/{}", form), self.sub, self.case,
                        format!("{} lhs={:?} rhs={:?}: value {} expected {}; {}", form, l, r, f(v), f(val), detail));
                }
            }
            R::Panic => self.rep.violation(&format!("C01/unexpected-panic/{}", form), self.sub, self.case,
                format!("{} lhs={:?} rhs={:?} panicked but units are compatible; {}", form, l, r, detail)),
            other => self.rep.violation(&format!("C01/shape/{}", form), self.sub, self.case, format!("{:?}", other)),
        }
    }
    fn expect_u(&mut self, form: &str, l: (i32, i32), r: (i32, i32), got: R, unit: (i32, i32)) -> Option<Unit> {
        self.rep.eval();
        match got {
            R::U(un) => {
                if !(un == u(unit.0, unit.1)) {
                    self.rep.violation(&format!("C01/unit/{}", form), self.sub, self.case,
                        format!("{} lhs={:?} rhs={:?}: result unit {:?}, expected exponents {:?}", form, l, r, un, unit));
                }
                Some(un)
            }
            R::Panic => {
                self.rep.violation(&format!("C01/unexpected-panic/{}", form), self.sub, self.case,
                    format!("{} lhs={:?} rhs={:?} panicked but units are compatible", form, l, r));
                None
            }
            other => {
                self.rep.violation(&format!("C01/shape/{}", form), self.sub, self.case, format!("{:?}", other));
                None
            }
        }
    }
    fn expect_panic(&mut self, form: &str, l: (i32, i32), r: (i32, i32), got: R) {
        self.rep.eval();
        self.rep.tally("panics_expected");
        match got {
            R::Panic => self.rep.tally("panics_observed"),
            other => self.rep.violation(&format!("C01/missing-panic/{}", form), self.sub, self.case,
                format!("{} lhs={:?} rhs={:?}: units differ but no panic, got {:?}", form, l, r, other)),
        }
    }
}
/// All Unit and Quantity operator forms on one ordered pair of exponent pairs.
fn pair(ctx: &mut Ctx, l: (i32, i32), r: (i32, i32), a: f32, b: f32) {
    let (ul, ur) = (u(l.0, l.1), u(r.0, r.1));
    let same_unit = l == r;
    let mul = (l.0 + r.0, l.1 + r.1);
    let div = (l.0 - r.0, l.1 - r.1);
    let (qa, qb) = (Quantity::new(a, ul), Quantity::new(b, ur));
    let det = format!("a={} b={}", f(a), f(b));
    ctx.rep.distinct(("pair", l, r));
    // ---- multiplicative: never panic
    let um = ctx.expect_u("Unit*", l, r, run(|| ul * ur, R::U), mul);
    let ud = ctx.expect_u("Unit/", l, r, run(|| ul / ur, R::U), div);
    ctx.expect_u("Unit*=", l, r, run(|| { let mut x = ul; x *= ur; x }, R::U), mul);
    ctx.expect_u("Unit/=", l, r, run(|| { let mut x = ul; x /= ur; x }, R::U), div);
    ctx.expect_u("Unit-neg", l, r, run(|| -ul, R::U), l);
    let wrap = |q: Quantity| R::Q(q.value, q.unit);
    let qm = run(|| qa * qb, wrap);
    let qd = run(|| qa / qb, wrap);
    // bare units == units of quantities
    if let (Some(um), R::Q(_, qu)) = (um, &qm) {
        ctx.rep.eval();
        if !(um == *qu) {
            ctx.rep.violation("C01/bare-vs-quantity/*", ctx.sub, ctx.case, format!("{:?}*{:?}: Unit gives {:?}, Quantity gives {:?}", l, r, um, qu));
        }
    }
    if let (Some(ud), R::Q(_, qu)) = (ud, &qd) {
        ctx.rep.eval();
        if !(ud == *qu) {
            ctx.rep.violation("C01/bare-vs-quantity//", ctx.sub, ctx.case, format!("{:?}/{:?}: Unit gives {:?}, Quantity gives {:?}", l, r, ud, qu));
        }
    }
    ctx.expect_q("Quantity*", l, r, qm, a * b, mul, &det);
    ctx.expect_q("Quantity/", l, r, qd, a / b, div, &det);
    ctx.expect_q("Quantity*=", l, r, run(|| { let mut x = qa; x *= qb; x }, wrap), a * b, mul, &det);
    ctx.expect_q("Quantity/=", l, r, run(|| { let mut x = qa; x /= qb; x }, wrap), a / b, div, &det);
    ctx.expect_q("Quantity-neg", l, r, run(|| -qa, wrap), -a, l, &det);
    ctx.expect_q("Quantity.abs", l, r, run(|| qa.abs(), wrap), a.abs(), l, &det);
    // ---- equality never panics
    ctx.rep.eval();
    match run(|| qa == qb, R::Eq) {
        R::Eq(e) => {
            if e != (same_unit && a == b) {
                ctx.rep.violation("C01/eq", ctx.sub, ctx.case, format!("{:?}=={:?} with {} gave {}", l, r, det, e));
            }
        }
        _ => ctx.rep.violation("C01/unexpected-panic/Quantity==", ctx.sub, ctx.case, format!("{:?}=={:?} panicked", l, r)),
    }
    ctx.rep.eval();
    match run(|| ul == ur, R::Eq) {
        R::Eq(e) => {
            if e != same_unit {
                ctx.rep.violation("C01/eq-unit", ctx.sub, ctx.case, format!("Unit {:?}=={:?} gave {}", l, r, e));
            }
        }
        _ => ctx.rep.violation("C01/unexpected-panic/Unit==", ctx.sub, ctx.case, format!("{:?}=={:?} panicked", l, r)),
    }
    // ---- additive / ordering: panic iff units differ
    let add_u = run(|| ul + ur, R::U);
    let sub_u = run(|| ul - ur, R::U);
    let adda_u = run(|| { let mut x = ul; x += ur; x }, R::U);
    let suba_u = run(|| { let mut x = ul; x -= ur; x }, R::U);
    let add_q = run(|| qa + qb, wrap);
    let sub_q = run(|| qa - qb, wrap);
    let adda_q = run(|| { let mut x = qa; x += qb; x }, wrap);
    let suba_q = run(|| { let mut x = qa; x -= qb; x }, wrap);
    let lt = run(|| qa < qb, R::Eq);
    let gt = run(|| qa > qb, R::Eq);
    let le = run(|| qa <= qb, R::Eq);
    let ge = run(|| qa >= qb, R::Eq);
    let pc = run(|| qa.partial_cmp(&qb), R::B);
    if same_unit {
        ctx.expect_u("Unit+", l, r, add_u, l);
        ctx.expect_u("Unit-", l, r, sub_u, l);
        ctx.expect_u("Unit+=", l, r, adda_u, l);
        ctx.expect_u("Unit-=", l, r, suba_u, l);
        ctx.expect_q("Quantity+", l, r, add_q, a + b, l, &det);
        ctx.expect_q("Quantity-", l, r, sub_q, a - b, l, &det);
        ctx.expect_q("Quantity+=", l, r, adda_q, a + b, l, &det);
        ctx.expect_q("Quantity-=", l, r, suba_q, a - b, l, &det);
        for (name, got, exp) in [("<", lt, a < b), (">", gt, a > b), ("<=", le, a <= b), (">=", ge, a >= b)] {
            ctx.rep.eval();
            match got {
                R::Eq(x) if x == exp => {}
                other => ctx.rep.violation(&format!("C01/order/{}", name), ctx.sub, ctx.case, format!("{:?} {} {:?} {}: got {:?} expected {}", l, name, r, det, other, exp)),
            }
        }
        ctx.rep.eval();
        match pc {
            R::B(o) if o == a.partial_cmp(&b) => {}
            other => ctx.rep.violation("C01/order/partial_cmp", ctx.sub, ctx.case, format!("{:?} vs {:?} {}: got {:?}", l, r, det, other)),
        }
    } else {
        ctx.expect_panic("Unit+", l, r, add_u);
        ctx.expect_panic("Unit-", l, r, sub_u);
        ctx.expect_panic("Unit+=", l, r, adda_u);
        ctx.expect_panic("Unit-=", l, r, suba_u);
        ctx.expect_panic("Quantity+", l, r, add_q);
        ctx.expect_panic("Quantity-", l, r, sub_q);
        ctx.expect_panic("Quantity+=", l, r, adda_q);
        ctx.expect_panic("Quantity-=", l, r, suba_q);
        ctx.expect_panic("Quantity<", l, r, lt);
        ctx.expect_panic("Quantity>", l, r, gt);
        ctx.expect_panic("Quantity<=", l, r, le);
        ctx.expect_panic("Quantity>=", l, r, ge);
        ctx.expect_panic("Quantity.partial_cmp", l, r, pc);
    }
}
/// Mixed operands: Time behaves as a quantity of seconds (0,1), DimensionlessInteger as (0,0).
/// Checks result unit and panic-iff-mismatch for every cell of the three documentation tables.
fn mixed(ctx: &mut Ctx, q: (i32, i32), a: f32, n: i64) {
    let qa = Quantity::new(a, u(q.0, q.1));
    let t = Time(n);
    let d = DimensionlessInteger(n);
    let tv = f32::from(Quantity::from(t));
    let dv = f32::from(Quantity::from(d));
    let wrap = |q: Quantity| R::Q(q.value, q.unit);
    let det = format!("a={} n={}", f(a), n);
    ctx.rep.distinct(("mixed", q));
    let sec = (0, 1);
    let dl = (0, 0);
    // ---- multiplication / division table
    ctx.expect_q("Quantity*Time", q, sec, run(|| qa * t, wrap), a * tv, (q.0, q.1 + 1), &det);
    ctx.expect_q("Quantity/Time", q, sec, run(|| qa / t, wrap), a / tv, (q.0, q.1 - 1), &det);
    ctx.expect_q("Quantity*=Time", q, sec, run(|| { let mut x = qa; x *= t; x }, wrap), a * tv, (q.0, q.1 + 1), &det);
    ctx.expect_q("Quantity/=Time", q, sec, run(|| { let mut x = qa; x /= t; x }, wrap), a / tv, (q.0, q.1 - 1), &det);
    ctx.expect_q("Quantity*DI", q, dl, run(|| qa * d, wrap), a * dv, q, &det);
    ctx.expect_q("Quantity/DI", q, dl, run(|| qa / d, wrap), a / dv, q, &det);
    ctx.expect_q("Quantity*=DI", q, dl, run(|| { let mut x = qa; x *= d; x }, wrap), a * dv, q, &det);
    ctx.expect_q("Quantity/=DI", q, dl, run(|| { let mut x = qa; x /= d; x }, wrap), a / dv, q, &det);
    ctx.expect_q("Time*Quantity", sec, q, run(|| t * qa, wrap), a * tv, (q.0, q.1 + 1), &det);
    ctx.expect_q("Time/Quantity", sec, q, run(|| t / qa, wrap), tv / a, (-q.0, 1 - q.1), &det);
    ctx.expect_q("DI*Quantity", dl, q, run(|| d * qa, wrap), a * dv, q, &det);
    ctx.expect_q("DI/Quantity", dl, q, run(|| d / qa, wrap), dv / a, (-q.0, -q.1), &det);
    // ---- addition / subtraction table (P cells)
    let qt_ok = q == sec;
    let qd_ok = q == dl;
    let cells: Vec<(&str, R, bool, f32)> = vec![
        ("Quantity+Time", run(|| qa + t, wrap), qt_ok, a + tv),
        ("Quantity-Time", run(|| qa - t, wrap), qt_ok, a - tv),
        ("Quantity+=Time", run(|| { let mut x = qa; x += t; x }, wrap), qt_ok, a + tv),
        ("Quantity-=Time", run(|| { let mut x = qa; x -= t; x }, wrap), qt_ok, a - tv),
        ("Time+Quantity", run(|| t + qa, wrap), qt_ok, tv + a),
        ("Time-Quantity", run(|| t - qa, wrap), qt_ok, tv - a),
        ("Quantity+DI", run(|| qa + d, wrap), qd_ok, a + dv),
        ("Quantity-DI", run(|| qa - d, wrap), qd_ok, a - dv),
        ("Quantity+=DI", run(|| { let mut x = qa; x += d; x }, wrap), qd_ok, a + dv),
        ("Quantity-=DI", run(|| { let mut x = qa; x -= d; x }, wrap), qd_ok, a - dv),
        ("DI+Quantity", run(|| d + qa, wrap), qd_ok, dv + a),
        ("DI-Quantity", run(|| d - qa, wrap), qd_ok, dv - a),
    ];
    for (name, got, ok, val) in cells {
        let other = if name.contains("Time") { sec } else { dl };
        if ok {
            ctx.expect_q(name, q, other, got, val, q, &det);
        } else {
            ctx.expect_panic(name, q, other, got);
        }
    }
}
/// Quantity::from(Time) / from(DimensionlessInteger) are pure: the value obtained for `n` must not depend on
/// which conversion ran just before. Predecessors are chosen in arithmetic relation to `n` (same low
/// 32 / 24 bits, +- 2^k, +- whole seconds) since a memo keyed on part of the argument collides only there.
fn conversion_purity(ctx: &mut Ctx, n: i64, rng: &mut Rng) {
    let related = match rng.below(5) {
        0 => n ^ (1i64 << (32 + rng.below(30))),
        1 => n.wrapping_add((rng.range_i64(1, 1 << 20)) << 32),
        2 => n ^ (1i64 << rng.below(62)),
        3 => n.saturating_add(rng.range_i64(-1000, 1000) * 1_000_000_000),
        _ => 0,
    };
    let unrelated = rng.mag_i64(50) | 1;
    let conv_t = |pred: i64| { let _ = Quantity::from(Time(pred)); Quantity::from(Time(n)).value };
    let conv_d = |pred: i64| { let _ = Quantity::from(DimensionlessInteger(pred)); Quantity::from(DimensionlessInteger(n)).value };
    for (name, a, b) in [("Quantity::from(Time)", conv_t(related), conv_t(unrelated)), ("Quantity::from(DimensionlessInteger)", conv_d(related), conv_d(unrelated))] {
        ctx.rep.eval();
        ctx.rep.tally("conversion_purity_pairs");
        if a.to_bits() != b.to_bits() {
            ctx.rep.violation(&format!("C01/conversion-depends-on-previous-call/{}", name), ctx.sub, ctx.case, format!("{}({}) = {} after converting {} but {} after converting {}", name, n, f(a), related, f(b), unrelated));
        }
    }
}
fn time_only(ctx: &mut Ctx, n1: i64, n2: i64) {
    let (t1, t2) = (Time(n1), Time(n2));
    let (d1, _d2) = (DimensionlessInteger(n1), DimensionlessInteger(n2));
    let v1 = f32::from(Quantity::from(t1));
    let v2 = f32::from(Quantity::from(t2));
    let wrap = |q: Quantity| R::Q(q.value, q.unit);
    let det = format!("n1={} n2={}", n1, n2);
    ctx.expect_q("Time*Time", (0, 1), (0, 1), run(|| t1 * t2, wrap), v1 * v2, (0, 2), &det);
    ctx.expect_q("Time/Time", (0, 1), (0, 1), run(|| t1 / t2, wrap), v1 / v2, (0, 0), &det);
    ctx.expect_q("DI/Time", (0, 0), (0, 1), run(|| d1 / t2, wrap), f32::from(Quantity::from(d1)) / v2, (0, -1), &det);
    ctx.expect_q("Quantity::from(Time)", (0, 1), (0, 1), run(|| Quantity::from(t1), wrap), v1, (0, 1), &det);
    ctx.expect_q("Quantity::from(DI)", (0, 0), (0, 0), run(|| Quantity::from(d1), wrap), n1 as f32, (0, 0), &det);
}
fn conversions(rep: &mut Report, m: i32, s: i32, x: f32, sub: &'static str, case: u64) {
    let un = u(m, s);
    let q = Quantity::new(x, un);
    rep.distinct(("conv", m, s));
    // PositionDerivative::try_from(Unit)
    let exp_pd = match (m, s) {
        (1, 0) => Some(PositionDerivative::Position),
        (1, -1) => Some(PositionDerivative::Velocity),
        (1, -2) => Some(PositionDerivative::Acceleration),
        _ => None,
    };
    rep.eval();
    let got = PositionDerivative::try_from(un).ok();
    if got != exp_pd {
        rep.violation("C01/conv/PositionDerivative::try_from(Unit)", sub, case, format!("unit ({},{}) -> {:?}, expected {:?}", m, s, got, exp_pd));
    }
    rep.eval();
    let gotc = Command::try_from(q).ok();
    let expc = exp_pd.map(|pd| Command::new(pd, x));
    let okc = match (gotc, expc) {
        (None, None) => true,
        (Some(a), Some(b)) => csame(&a, &b),
        _ => false,
    };
    if !okc {
        rep.violation("C01/conv/Command::try_from(Quantity)", sub, case, format!("quantity {} unit ({},{}) -> {:?}, expected {:?}", f(x), m, s, gotc, expc));
    }
    // Time / DimensionlessInteger try_from only for s / dimensionless
    rep.eval();
    // (only the unit decides for seconds values a Time can hold; beyond ~9.2e9 s an implementation may refuse the value itself)
    if x.abs() < 9.0e9 && Time::try_from(q).is_ok() != ((m, s) == (0, 1)) {
        rep.violation("C01/conv/Time::try_from(Quantity)", sub, case, format!("unit ({},{}) is_ok={}", m, s, Time::try_from(q).is_ok()));
    }
    rep.eval();
    if DimensionlessInteger::try_from(q).is_ok() != ((m, s) == (0, 0)) {
        rep.violation("C01/conv/DimensionlessInteger::try_from(Quantity)", sub, case, format!("unit ({},{}) is_ok={}", m, s, DimensionlessInteger::try_from(q).is_ok()));
    }
}
fn main() {
    let args = Args::parse();
    let mut rep = Report::new("C01", &args);
    if core::mem::size_of::<Unit>() == 0 {
        // dimension checking compiled out: nothing this monitor says would mean anything
        rep.floor("dimension_checking_enabled", 1);
        rep.finish(&args);
    }
    rep.tally("dimension_checking_enabled");
    rep.floor("dimension_checking_enabled", 1);
    // ---- 1. exhaustive 49x49 grid, fresh random finite values per pair and per repetition
    let reps = args.pick(4, 40);
    let mut idx = 0u64;
    for rpt in 0..reps {
        for lm in -3..=3 {
            for ls in -3..=3 {
                for rm in -3..=3 {
                    for rs in -3..=3 {
                        let case = idx;
                        idx += 1;
                        if !args.mine("grid", case) {
                            continue;
                        }
                        let mut rng = Rng::new(args.seed, 101, case);
                        // value strata: independent moderate, independent arbitrary, EQUAL values (a fast path that
                        // compares values before units would only show there), and +0 / -0
                        let (a, b) = match rpt % 4 {
                            0 => (rng.moderate(1e6), rng.moderate(1e6)),
                            1 => (rng.any_finite(), rng.any_finite()),
                            2 => { let a = rng.any_finite(); if rng.chance(0.5) { (a, a) } else { (a, -a) } } // equal and exactly opposite values
                            _ => { let z = if rng.chance(0.5) { 0.0f32 } else { -0.0 }; if rng.chance(0.5) { (z, -z) } else { (-rng.moderate(1e3).abs(), z) } }
                        };
                        let mut ctx = Ctx { rep: &mut rep, sub: "grid", case };
                        pair(&mut ctx, (lm, ls), (rm, rs), a, b);
                        if rep.want_sample("grid") {
                            rep.sample("grid", format!("Quantity({} , mm^{} s^{}) op Quantity({}, mm^{} s^{}) for all 30 operator forms", f(a), lm, ls, f(b), rm, rs));
                        }
                    }
                }
            }
        }
    }
    rep.exhaustive("49x49 ordered unit pairs x all Unit/Quantity operator forms");
    rep.tally_n("grid_pairs_per_repetition", 49 * 49);
    // ---- 2. mixed operands x 49 units
    let reps = args.pick(4, 200);
    let mut idx = 0u64;
    for _ in 0..reps {
        for m in -3..=3 {
            for s in -3..=3 {
                let case = idx;
                idx += 1;
                if !args.mine("mixed", case) {
                    continue;
                }
                let mut rng = Rng::new(args.seed, 102, case);
                let n = if rng.chance(0.2) { rng.range_i64(-5, 5) } else if rng.chance(0.2) { rng.range_i64(-200, 200) * 1_000_000_000 } else { rng.mag_i64(50) };
                // the quantity is sometimes exactly +- the converted Time / integer (cancellation / equality fast paths)
                let a = match rng.below(8) { 0 => -f32::from(Quantity::from(Time(n))), 1 => f32::from(Quantity::from(Time(n))), 2 => -(n as f32), 3 => n as f32, _ => rng.moderate(1e6) };
                let mut ctx = Ctx { rep: &mut rep, sub: "mixed", case };
                mixed(&mut ctx, (m, s), a, n);
                let n2 = rng.mag_i64(50);
                conversion_purity(&mut ctx, n, &mut rng);
                conversion_purity(&mut ctx, n2 << rng.below(12), &mut rng);
                time_only(&mut ctx, n, n2);
                if rep.want_sample("mixed") {
                    rep.sample("mixed", format!("Quantity({}, mm^{} s^{}) with Time({}) / DimensionlessInteger({}): 24 mixed operator cells", f(a), m, s, n, n));
                }
            }
        }
    }
    rep.exhaustive("49 units x every cell of the three implementation tables");
    // ---- 3. random exponents up to |60|
    for case in args.cases("random", 3_000, 300_000) {
        let mut rng = Rng::new(args.seed, 103, case);
        let l = (rng.range_i64(-60, 60) as i32, rng.range_i64(-60, 60) as i32);
        let r = if rng.chance(0.3) { l } else { (rng.range_i64(-60, 60) as i32, rng.range_i64(-60, 60) as i32) };
        let a = rng.any_finite();
        let b = match rng.below(8) { 0 => a, 1 => -a, _ => rng.any_finite() };
        let mut ctx = Ctx { rep: &mut rep, sub: "random", case };
        pair(&mut ctx, l, r, a, b);
        if rep.want_sample("random") {
            rep.sample("random", format!("exps {:?} op {:?}, values {} {}", l, r, f(a), f(b)));
        }
    }
    // ---- 4. named constants
    if args.mine("constants", 0) {
        let mut seen = std::collections::BTreeSet::new();
        for (name, unit, m, s) in CONSTANTS.iter() {
            rep.eval();
            rep.tally("constants_checked");
            rep.distinct(("const", *name));
            if !(*unit == Unit::new(*m, *s)) {
                rep.violation(&format!("C01/constant/{}", name), "constants", 0, format!("{} = {:?} but its name spells mm^{} s^{}", name, unit, m, s));
            }
            if (-3..=3).contains(m) && (-3..=3).contains(s) {
                seen.insert((*m, *s));
            }
        }
        rep.tally_n("constants_grid_cells_named", seen.len() as u64);
        rep.tally_n("constants_unparsed_names", UNPARSED.len() as u64);
        rep.floor("constants_checked", 49);
        rep.floor("constants_grid_cells_named", 49);
        rep.sample("constants", format!("{} constants, e.g. {:?}", CONSTANTS.len(), CONSTANTS.iter().take(3).map(|c| (c.0, c.2, c.3)).collect::<Vec<_>>()));
    }
    // ---- 5. conversions
    let reps = args.pick(4, 100);
    let mut idx = 0;
    for _ in 0..reps {
        for m in -3..=3 {
            for s in -3..=3 {
                let case = idx;
                idx += 1;
                if !args.mine("conv", case) {
                    continue;
                }
                let mut rng = Rng::new(args.seed, 104, case);
                conversions(&mut rep, m, s, rng.any_finite(), "conv", case);
            }
        }
    }
    for case in args.cases("conv-random", 500, 50_000) {
        let mut rng = Rng::new(args.seed, 105, case);
        conversions(&mut rep, rng.range_i64(-60, 60) as i32, rng.range_i64(-60, 60) as i32, rng.any_finite(), "conv-random", case);
    }
    if args.mine("conv-pd", 0) {
        for (pd, m, s) in [(PositionDerivative::Position, 1, 0), (PositionDerivative::Velocity, 1, -1), (PositionDerivative::Acceleration, 1, -2)] {
            rep.eval();
            rep.distinct(("pd", m, s));
            if !(Unit::from(pd) == Unit::new(m, s)) {
                rep.violation("C01/conv/Unit::from(PositionDerivative)", "conv-pd", 0, format!("{:?} -> {:?}", pd, Unit::from(pd)));
            }
            let mut rng = Rng::new(args.seed, 106, m as u64 * 7 + (s + 3) as u64);
            for _ in 0..200 {
                let x = rng.any_finite();
                let c = Command::new(pd, x);
                let q = Quantity::from(c);
                rep.eval();
                if !(q.unit == Unit::new(m, s)) || !same(q.value, x) {
                    rep.violation("C01/conv/Quantity::from(Command)", "conv-pd", 0, format!("{:?} -> {:?}", c, q));
                }
                rep.eval();
                if PositionDerivative::from(c) != pd {
                    rep.violation("C01/conv/PositionDerivative::from(Command)", "conv-pd", 0, format!("{:?}", c));
                }
                let st = State::new_raw(x, x * 0.5, x * 0.25);
                rep.eval();
                let gv = st.get_value(pd);
                if !(gv.unit == Unit::new(m, s)) {
                    rep.violation("C01/conv/State::get_value", "conv-pd", 0, format!("{:?} -> {:?}", pd, gv));
                }
            }
        }
        for (piece, exp) in [
            (MotionProfilePiece::BeforeStart, None),
            (MotionProfilePiece::InitialAcceleration, Some((1, -2))),
            (MotionProfilePiece::ConstantVelocity, Some((1, -1))),
            (MotionProfilePiece::EndAcceleration, Some((1, -2))),
            (MotionProfilePiece::Complete, None),
        ] {
            rep.eval();
            let got = Unit::try_from(piece).ok();
            let ok = match (got, exp) {
                (None, None) => true,
                (Some(g), Some((m, s))) => g == Unit::new(m, s),
                _ => false,
            };
            if !ok {
                rep.violation("C01/conv/Unit::try_from(MotionProfilePiece)", "conv-pd", 0, format!("{:?} -> {:?} expected {:?}", piece, got, exp));
            }
        }
    }
    rep.floor("panics_observed", 1000);
    rep.finish(&args);
}
