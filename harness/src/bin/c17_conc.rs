//! C17 (concurrent lane): mutable borrows taken concurrently through References that different
//! threads built over one shared Arc (or one static lock) lose no update.
//! The monitored object carries its own event log, so the log is updated atomically with the state
//! it shadows; the checker runs offline over that log after the threads have joined.
//! Usage: c17_conc <threads> <iterations>   -> prints one `CONC <variant> ...` line per variant.
//! Built three ways by the driver: natively, under Miri (-Zmiri-many-seeds) and with ThreadSanitizer.
use rrtk::*;
use std::sync::{Arc, Mutex, RwLock};
use std::thread;
pub struct Shared {
    counter: u64,
    log: Vec<(u8, u64)>,
}
impl Shared {
    const fn new() -> Self { Shared { counter: 0, log: Vec::new() } }
}
fn static_mutex() -> Reference<Shared> { static_mutex_reference!(Shared, Shared::new()) }
fn static_rwlock() -> Reference<Shared> { static_rw_lock_reference!(Shared, Shared::new()) }
fn work(r: Reference<Shared>, tid: u8, iters: u64) -> u64 {
    work_ref(&r, tid, iters)
}
fn work_ref(r: &Reference<Shared>, tid: u8, iters: u64) -> u64 {
    let mut reads_ok = 0;
    for i in 0..iters {
        {
            let mut g = r.borrow_mut();
            let seen = g.counter;
            g.log.push((tid, seen));
            g.counter = seen + 1;
        }
        if i % 4 == 0 {
            // shared borrow: counter and log length must agree under the lock
            let g = r.borrow();
            if g.counter == g.log.len() as u64 { reads_ok += 1; } else { return u64::MAX; }
        }
        if i % 16 == 0 { thread::yield_now(); }
    }
    reads_ok
}
fn check(name: &str, r: &Reference<Shared>, threads: u64, iters: u64, base: u64, read_results: &[u64]) {
    let g = r.borrow();
    let log = &g.log[base as usize..];
    let total = threads * iters;
    let mut ok = true;
    let mut why = String::new();
    if g.counter != base + total { ok = false; why = format!("final counter {} != {}", g.counter, base + total); }
    if log.len() as u64 != total { ok = false; why = format!("log length {} != {}", log.len(), total); }
    let mut per = vec![0u64; threads as usize];
    let mut handoffs = 0u64;
    let mut hash = 0xcbf29ce484222325u64;
    for (k, (tid, seen)) in log.iter().enumerate() {
        if *seen != base + k as u64 && ok { ok = false; why = format!("log[{}] saw counter {} (lost or duplicated update)", k, seen); }
        if (*tid as usize) < per.len() { per[*tid as usize] += 1; }
        if k > 0 && log[k - 1].0 != *tid { handoffs += 1; }
        hash = (hash ^ *tid as u64).wrapping_mul(0x100000001b3);
    }
    if per.iter().any(|&c| c != iters) && ok { ok = false; why = format!("per-thread counts {:?} != {}", per, iters); }
    if read_results.iter().any(|&x| x == u64::MAX) && ok { ok = false; why = "a shared borrow saw counter != log length".into(); }
    println!("CONC {} threads={} iters={} ok={} handoffs={} interleaving={:016x} why={}", name, threads, iters, ok, handoffs, hash, why);
}
fn run_variant(name: &str, threads: u64, iters: u64, make: &(dyn Fn() -> Reference<Shared> + Sync), base: u64) {
    let results: Vec<u64> = thread::scope(|s| {
        let hs: Vec<_> = (0..threads).map(|t| s.spawn(move || work(make(), t as u8, iters))).collect();
        hs.into_iter().map(|h| h.join().unwrap_or(u64::MAX)).collect()
    });
    check(name, &make(), threads, iters, base, &results);
}
fn main() {
    let a: Vec<String> = std::env::args().collect();
    let threads: u64 = a.get(1).and_then(|s| s.parse().ok()).unwrap_or(3);
    let iters: u64 = a.get(2).and_then(|s| s.parse().ok()).unwrap_or(20);
    let am = Arc::new(Mutex::new(Shared::new()));
    run_variant("ArcMutex", threads, iters, &{ let am = am.clone(); move || Reference::from_arc_mutex(am.clone()) }, 0);
    let ar = Arc::new(RwLock::new(Shared::new()));
    run_variant("ArcRwLock", threads, iters, &{ let ar = ar.clone(); move || Reference::from_arc_rw_lock(ar.clone()) }, 0);
    run_variant("PtrMutex(static_mutex_reference!)", threads, iters, &static_mutex, 0);
    run_variant("PtrRwLock(static_rw_lock_reference!)", threads, iters, &static_rwlock, 0);
    // clones of one Reference handed... References are !Send by design (raw-pointer variants), so each
    // thread builds its own; clones are exercised within each thread:
    run_variant("ArcMutex+clone", threads, iters, &{ let am = am.clone(); move || Reference::from_arc_mutex(am.clone()).clone() }, threads * iters);
    // one long-lived owner (the only strong handle besides transient ones) plus threads that build a fresh Reference
    // from Weak::upgrade() for every increment: a "sole owner" shortcut that skips the lock when the strong count
    // is 1 would race with a thread that is just upgrading
    {
        let owner = Arc::new(Mutex::new(Shared::new()));
        let weak = Arc::downgrade(&owner);
        let owner_ref = Reference::from_arc_mutex(owner);
        let results: Vec<u64> = thread::scope(|s| {
            let hs: Vec<_> = (1..threads).map(|t| { let w = weak.clone(); s.spawn(move || {
                let mut ok = 0u64;
                for i in 0..iters { let a = match w.upgrade() { Some(a) => a, None => return u64::MAX }; ok += work(Reference::from_arc_mutex(a), t as u8, 1); if i % 16 == 0 { thread::yield_now(); } }
                ok
            }) }).collect();
            let mine = work_ref(&owner_ref, 0, iters); // the single strong handle itself, not a clone
            let mut v: Vec<u64> = hs.into_iter().map(|h| h.join().unwrap_or(u64::MAX)).collect();
            v.push(mine);
            v
        });
        check("ArcMutex+Weak::upgrade", &owner_ref, threads, iters, 0, &results);
    }
    println!("CONC-DONE");
}
