//! C13 — one-degree-of-freedom devices (inverter, gear train, axle) relay the newest command to
//! every terminal, scaled; chains deliver c * product of ratios at the far end once the devices have
//! been updated in order; a differential never alters the commands of its terminals.
//!
//! The harness is the only issuer of commands (devices only relay), every stamp it issues is larger
//! than every earlier one, and every slot it writes is readable at a device terminal (own slot, or
//! the own slot of a *connected* external terminal). So the "most recently issued command among
//! those present at its terminals" is always the command with the largest stamp the harness has
//! written so far; the oracle keeps exactly that (slot, datum). Before every update the premise is
//! confirmed by observation (the largest stamp readable at the device terminals is that stamp); a
//! case where it is not is not judged (tally `premise_newest_not_readable_before_update`).
//!
//! Value mapping (from the statement): x(-1) across an inverter and unchanged across an axle (both
//! exact in IEEE arithmetic, compared on canonical bits), x ratio from side 1 to side 2 of a gear
//! train and / ratio back (4 ulp: a command that went /r then *r may differ in the last bits).
//! Kind and stamp are exact. States are present on random slots but are not judged here.
//!
//! Delivery by FOLLOWING: some slots (fixed per case) follow a scripted getter
//! (`Settable::<Datum<Command>, E>::follow`); every command such a slot ever receives comes through
//! that getter and is pulled in by the device's own `update()` (device terminal) or by an explicit
//! `Terminal::update` made by the harness before the device update (external terminal). A followed
//! command is "issued" like any other one: after the device update every terminal must read the
//! newest issued command. A followed getter that is absent issues nothing. Followed commands may
//! also be OLDER than everything issued so far (stamps from a descending clock, still distinct);
//! such a command is never delivered to the slot that issued the current newest command, so the
//! newest issued command is never withdrawn by the harness itself.
//!
//! Extreme stamps: in ~30% of the relay and chain cases the stamps come from the whole i64 range
//! (`Stamps`, extreme mode: i64::MIN, MIN+1, around +-2^62, +-5e18, -1, 0, 1, MAX-1, MAX, uniform and
//! ordinary values; still strictly "newer than everything before" / "older than everything
//! before" and distinct), so that commands whose stamps are 2^63 or more apart sit on the two
//! sides of one device. On the command and state paths of Terminal, Invert, GearTrain and Axle the
//! crate only COMPARES stamps (`>`, `>=`, max); nothing subtracts them, so nothing can overflow.
//!
//! Moved devices: in a fraction of the cases the device is built, `update()` is called once (in
//! some cases then a command is set on one terminal and `update()` called again), and only then
//! the device object is MOVED (box, Vec, struct field, returned from a function); terminals are
//! taken from the final location only. A command issued before the move is present at its
//! terminal like any other issued command (it is the oldest of the case).
use rrtk::devices::*;
use rrtk::*;
use rrtk_mon::*;
use std::cell::RefCell;

type Term<'a> = RefCell<Terminal<'a, E>>;
const KIND_NAMES: [&str; 3] = ["Position", "Velocity", "Acceleration"];

fn set_cmd(t: &Term<'_>, d: Datum<Command>) -> Result<NothingOrError<E>, String> {
    catch(|| Settable::<Datum<Command>, E>::set(&mut *t.borrow_mut(), d))
}
fn set_state(t: &Term<'_>, d: Datum<State>) -> Result<NothingOrError<E>, String> {
    catch(|| Settable::<Datum<State>, E>::set(&mut *t.borrow_mut(), d))
}
fn own_cmd(t: &Term<'_>) -> Option<Datum<Command>> {
    Settable::<Datum<Command>, E>::get_last_request(&*t.borrow())
}
fn own_state(t: &Term<'_>) -> Option<Datum<State>> {
    Settable::<Datum<State>, E>::get_last_request(&*t.borrow())
}
fn read_cmd(t: &Term<'_>) -> Result<Out<Command>, String> {
    catch(|| <Terminal<'_, E> as Getter<Command, E>>::get(&t.borrow()))
}
type CSrc = Src<Datum<Command>>;
fn follow_cmd(t: &Term<'_>, src: &CSrc) {
    Settable::<Datum<Command>, E>::follow(&mut *t.borrow_mut(), src.dynref());
}
/// `Terminal::update` (polls the getters the terminal follows)
fn term_update(t: &Term<'_>) -> Result<NothingOrError<E>, String> {
    catch(|| Updatable::<E>::update(&mut *t.borrow_mut()))
}
/// Put a command into a scripted getter; the outer stamp of the getter's datum is arbitrary (the
/// terminal stores the payload datum).
fn src_put(rng: &mut Rng, src: &CSrc, d: Datum<Command>) {
    let outer = if rng.chance(0.5) { d.time.0 } else { rng.range_i64(-(1i64 << 40), 1i64 << 40) };
    src.some(outer, d);
}
fn mk_cmd(kind: usize, v: f32) -> Command {
    match kind {
        0 => Command::Position(v),
        1 => Command::Velocity(v),
        _ => Command::Acceleration(v),
    }
}
fn kind_of(c: &Command) -> usize {
    match PositionDerivative::from(*c) {
        PositionDerivative::Position => 0,
        PositionDerivative::Velocity => 1,
        PositionDerivative::Acceleration => 2,
    }
}
fn fmt_cmd(d: &Datum<Command>) -> String {
    format!("{}({})@{}", KIND_NAMES[kind_of(&d.value)], f(f32::from(d.value)), d.time.0)
}
fn fmt_ocmd(d: &Option<Datum<Command>>) -> String {
    match d {
        Some(d) => fmt_cmd(d),
        None => "None".to_string(),
    }
}
fn fmt_read(r: &Result<Out<Command>, String>) -> String {
    match r {
        Ok(Ok(d)) => fmt_ocmd(d),
        Ok(Err(e)) => format!("Err({:?})", e),
        Err(p) => format!("PANIC({})", p),
    }
}
fn slot_name(s: usize) -> String {
    format!("{}#{}", if s % 2 == 0 { "own" } else { "ext" }, s / 2)
}
/// bit-identical (not merely equal) optional command datum
fn ident(a: &Option<Datum<Command>>, b: &Option<Datum<Command>>) -> bool {
    match (a, b) {
        (None, None) => true,
        (Some(x), Some(y)) => x.time == y.time && kind_of(&x.value) == kind_of(&y.value) && f32::from(x.value).to_bits() == f32::from(y.value).to_bits(),
        _ => false,
    }
}
#[derive(Clone, Copy)]
enum Op {
    Cmd(usize, Datum<Command>),
    /// the getter followed by this slot now returns this
    Src(usize, Option<Datum<Command>>),
    /// explicit Terminal::update of an external terminal
    TermUpdate(usize),
    St(usize, Datum<State>),
    Update(usize),
}
fn fmt_ops(ops: &[Op]) -> String {
    let v: Vec<String> = ops
        .iter()
        .map(|o| match o {
            Op::Cmd(s, d) => format!("{}.set({})", slot_name(*s), fmt_cmd(d)),
            Op::Src(s, d) => format!("getter-followed-by-{} := {}", slot_name(*s), fmt_ocmd(d)),
            Op::TermUpdate(s) => format!("{}.update()", slot_name(*s)),
            Op::St(s, d) => format!("{}.set(State[{} {} {}]@{})", slot_name(*s), f(d.value.position), f(d.value.velocity), f(d.value.acceleration), d.time.0),
            Op::Update(i) => format!("update(dev{})", i),
        })
        .collect();
    format!("[{}]", v.join(", "))
}
struct Ctx<'r> {
    rep: &'r mut Report,
    sub: &'static str,
    case: u64,
}
impl Ctx<'_> {
    fn bad(&mut self, sig: String, detail: String) {
        self.rep.violation(&sig, self.sub, self.case, detail);
    }
}
/// Strictly increasing moderate stamps: start in [-2^40, 2^39], at most ~2^37 of total increase.
struct Clock(i64);
impl Clock {
    fn new(rng: &mut Rng) -> Clock {
        Clock(match rng.below(4) {
            0 => rng.range_i64(-1000, 1000),
            1 => -(1i64 << 40) + (1i64 << 24),
            _ => rng.range_i64(-(1i64 << 40) + (1i64 << 24), 1i64 << 39),
        })
    }
    fn next(&mut self, rng: &mut Rng) -> i64 {
        self.0 += match rng.below(10) {
            0..=2 => 1,
            3..=6 => rng.range_i64(2, 1000),
            _ => rng.range_i64(1000, 1i64 << 30),
        };
        self.0
    }
}
/// Strictly decreasing stamps below the start of a `Clock`: older than, and distinct from,
/// everything either clock has produced (at most a few hundred steps of <= 1000: stays above -2^40).
struct PastClock(i64);
impl PastClock {
    fn before(c: &Clock) -> PastClock {
        PastClock(c.0)
    }
    fn next(&mut self, rng: &mut Rng) -> i64 {
        self.0 -= if rng.chance(0.3) { 1 } else { rng.range_i64(2, 1000) };
        self.0
    }
}
/// Stamps the crate must order correctly although it can only COMPARE them (it never subtracts
/// command stamps): the i64 extremes, +-2^62, +-5e18, the neighbours of zero, and ordinary ones.
fn landmark(rng: &mut Rng) -> i128 {
    let j = rng.range_i64(0, 1000) as i128;
    match rng.below(16) {
        0 => i64::MIN as i128,
        1 => i64::MIN as i128 + 1,
        2 => -(1i128 << 62) - j,
        3 => -(1i128 << 62) + j,
        4 => -5_000_000_000_000_000_000 + j - 500,
        5 => -1,
        6 => 0,
        7 => 1,
        8 => 5_000_000_000_000_000_000 + j - 500,
        9 => (1i128 << 62) - j,
        10 => (1i128 << 62) + j,
        11 => i64::MAX as i128 - 1,
        12 => i64::MAX as i128,
        13 => rng.range_i64(-(1i64 << 40), 1i64 << 40) as i128,
        14 => rng.range_i64(-2_000_000_000, 2_000_000_000) as i128,
        _ => rng.range_i64(i64::MIN, i64::MAX) as i128,
    }
}
/// The stamp source of one case: `next` is newer than everything issued before, `older` is older
/// than everything issued before; all distinct. Ordinary mode: the moderate clocks above.
/// Extreme mode: anywhere in the i64 range (landmarks, neighbours, uniform), kept feasible by
/// budgets = upper bounds on the number of calls still to come.
struct Stamps {
    extreme: bool,
    clock: Clock,
    past: PastClock,
    /// extreme mode: last stamp issued upwards / downwards
    up: Option<i128>,
    down: Option<i128>,
    left_up: u64,
    left_down: u64,
}
impl Stamps {
    fn new(rng: &mut Rng, extreme: bool, left_up: u64, left_down: u64) -> Stamps {
        let clock = Clock::new(rng);
        let past = PastClock::before(&clock);
        Stamps { extreme, clock, past, up: None, down: None, left_up, left_down }
    }
    /// tighten the budgets (never widens)
    fn budget(&mut self, left_up: u64, left_down: u64) {
        self.left_up = self.left_up.min(left_up);
        self.left_down = self.left_down.min(left_down);
    }
    fn choose(rng: &mut Rng, lo: i128, hi: i128, towards_lo: bool) -> i128 {
        assert!(lo <= hi, "stamp budget exhausted (harness bug)");
        let near = if towards_lo { lo } else { hi };
        match rng.below(20) {
            0..=6 => {
                for _ in 0..4 {
                    let l = landmark(rng);
                    if l >= lo && l <= hi {
                        return l;
                    }
                }
                near
            }
            7..=9 => near,
            10..=12 => {
                let j = rng.range_i64(1, 1000) as i128;
                if towards_lo { (lo + j).min(hi) } else { (hi - j).max(lo) }
            }
            13 => {
                if towards_lo { hi } else { lo }
            }
            _ => {
                let span = (hi - lo) as u128 + 1;
                let r = ((rng.next_u64() as u128) << 64 | rng.next_u64() as u128) % span;
                lo + r as i128
            }
        }
    }
    fn next(&mut self, rng: &mut Rng) -> i64 {
        if !self.extreme {
            return self.clock.next(rng);
        }
        self.left_up = self.left_up.saturating_sub(1);
        let lo = match self.up {
            Some(t) => t + 1,
            None => i64::MIN as i128 + self.left_down as i128,
        };
        let hi = i64::MAX as i128 - self.left_up as i128;
        let t = Stamps::choose(rng, lo, hi, true);
        if self.up.is_none() {
            self.down = Some(t);
        }
        self.up = Some(t);
        t as i64
    }
    /// only after at least one `next`
    fn older(&mut self, rng: &mut Rng) -> i64 {
        if !self.extreme {
            return self.past.next(rng);
        }
        self.left_down = self.left_down.saturating_sub(1);
        let hi = self.down.expect("older() before next() (harness bug)") - 1;
        let lo = i64::MIN as i128 + self.left_down as i128;
        let t = Stamps::choose(rng, lo, hi, false);
        self.down = Some(t);
        t as i64
    }
    fn state_stamp(&self, rng: &mut Rng) -> i64 {
        if self.extreme && rng.chance(0.5) {
            landmark(rng) as i64
        } else {
            rng.range_i64(-(1i64 << 40), 1i64 << 40)
        }
    }
}
fn gen_state(rng: &mut Rng) -> Datum<State> {
    let t = rng.range_i64(-(1i64 << 40), 1i64 << 40);
    gen_state_at(rng, t)
}
fn gen_state_at(rng: &mut Rng, t: i64) -> Datum<State> {
    Datum::new(Time(t), State::new_raw(rng.moderate(1e4), rng.moderate(1e4), rng.moderate(1e4)))
}
/// Finite command value. `exact` devices (inverter, axle) take any finite f32; for gear trains the
/// magnitude stays in [1e-30, 1e30] (or 0) so that x r and / r neither overflow nor go subnormal.
fn gen_value(rng: &mut Rng, exact: bool) -> f32 {
    gen_value_in(rng, exact, 1e30)
}
fn gen_value_in(rng: &mut Rng, exact: bool, max: f64) -> f32 {
    if rng.chance(0.7) {
        rng.moderate(1e6)
    } else if exact {
        rng.any_finite()
    } else {
        (rng.sign() * rng.log_uniform(1.0 / max, max)) as f32
    }
}
/// Ratio in +-[1e-2, 1e2] (strictly inside after rounding to f32).
fn gen_ratio(rng: &mut Rng) -> f32 {
    let m = match rng.below(10) {
        0 => *rng.pick(&[1.0f32, 2.0, 0.5, 100.0, 0.015625, 64.0, 3.0, 10.0]),
        1 => rng.range_i64(1, 100) as f32,
        _ => rng.log_uniform(0.010001, 99.999) as f32,
    };
    if rng.chance(0.5) {
        m
    } else {
        -m
    }
}
#[derive(Clone, Debug)]
enum GearCtor {
    Raw(f32),
    Quant(f32),
    Teeth(Vec<f32>),
}
impl GearCtor {
    fn random(rng: &mut Rng, which: u64) -> GearCtor {
        match which {
            0 => GearCtor::Raw(gen_ratio(rng)),
            1 => GearCtor::Quant(gen_ratio(rng)),
            n => GearCtor::Teeth((0..n).map(|_| rng.range_i64(8, 200) as f32).collect()),
        }
    }
    /// the documented ratio: first / last, negative for an even number of gears
    fn ratio(&self) -> f32 {
        match self {
            GearCtor::Raw(r) | GearCtor::Quant(r) => *r,
            GearCtor::Teeth(t) => {
                let q = t[0] / t[t.len() - 1];
                if t.len() % 2 == 0 {
                    -q
                } else {
                    q
                }
            }
        }
    }
    fn tag(&self) -> String {
        match self {
            GearCtor::Raw(_) => "GearTrain/with_ratio_raw".into(),
            GearCtor::Quant(_) => "GearTrain/with_ratio".into(),
            GearCtor::Teeth(t) => format!("GearTrain/new[{}]", t.len()),
        }
    }
    fn build<'a>(&self) -> GearTrain<'a, E> {
        match self {
            GearCtor::Raw(r) => GearTrain::with_ratio_raw(*r),
            GearCtor::Quant(r) => GearTrain::with_ratio(Quantity::dimensionless(*r)),
            GearCtor::Teeth(t) => match t.len() {
                2 => GearTrain::new([t[0], t[1]]),
                3 => GearTrain::new([t[0], t[1], t[2]]),
                4 => GearTrain::new([t[0], t[1], t[2], t[3]]),
                5 => GearTrain::new([t[0], t[1], t[2], t[3], t[4]]),
                _ => GearTrain::new([t[0], t[1], t[2], t[3], t[4], t[5]]),
            },
        }
    }
}
#[derive(Clone, Copy, Debug)]
enum Map {
    Invert,
    Gear(f32),
    Axle,
}
impl Map {
    fn family(&self) -> &'static str {
        match self {
            Map::Invert => "Invert",
            Map::Gear(_) => "GearTrain",
            Map::Axle => "Axle",
        }
    }
    fn exact(&self) -> bool {
        !matches!(self, Map::Gear(_))
    }
    /// value on side `to` of a command of value `v` issued on side `from`, tolerance in ulp, route
    fn map(&self, from: usize, to: usize, v: f32) -> (f32, u64, &'static str) {
        match self {
            Map::Invert => {
                if from != to {
                    (-v, 0, "across")
                } else {
                    (v, 0, "same-side")
                }
            }
            Map::Axle => (v, 0, "axle"),
            Map::Gear(r) => {
                if from == to {
                    (v, 4, "same-side")
                } else if from == 0 {
                    (v * r, 4, "1->2")
                } else {
                    (v / r, 4, "2->1")
                }
            }
        }
    }
}
/// Compare one command read with the expected relayed command. Returns true if it was as expected.
#[allow(clippy::too_many_arguments)]
fn judge(ctx: &mut Ctx, sig_base: &str, route: &str, got: &Result<Out<Command>, String>, stamp: Time, kind: usize, val: f32, tol: u64, ulp_key: &str, det: &dyn Fn() -> String) -> bool {
    ctx.rep.eval();
    match got {
        Err(p) => {
            ctx.bad(format!("{}/read-panicked", sig_base), format!("command read panicked: {}; {}", p, det()));
            false
        }
        Ok(Err(e)) => {
            ctx.bad(format!("{}/read-err", sig_base), format!("command read returned Err({:?}); {}", e, det()));
            false
        }
        Ok(Ok(None)) => {
            ctx.bad(format!("{}/absent", sig_base), format!("command read is None; {}", det()));
            false
        }
        Ok(Ok(Some(d))) => {
            if d.time != stamp {
                ctx.bad(format!("{}/stamp", sig_base), format!("read {} does not carry the stamp of the newest command; {}", fmt_cmd(d), det()));
                return false;
            }
            if kind_of(&d.value) != kind {
                ctx.bad(format!("{}/kind", sig_base), format!("read {} has a different position-derivative kind than the issued command; {}", fmt_cmd(d), det()));
                return false;
            }
            let dist = ulp_dist(f32::from(d.value), val);
            let dist = if same(f32::from(d.value), val) { 0 } else { dist.max(1) };
            ctx.rep.max(ulp_key, dist.min(1 << 40) as f64);
            if dist > tol {
                ctx.bad(format!("{}/value/{}", sig_base, route), format!("read {} but the mapped value is {} ({} ulp apart, {} allowed); {}", fmt_cmd(d), f(val), dist, tol, det()));
                return false;
            }
            true
        }
    }
}
/// All assignments of {no command, distinct ranks} to `n` slots: every subset x every order.
fn assignments(n: usize) -> Vec<Vec<Option<u32>>> {
    fn rec(n: usize, cur: &mut Vec<Option<u32>>, used: &mut Vec<bool>, placed: u32, total: u32, out: &mut Vec<Vec<Option<u32>>>, subset: u32) {
        // place rank `placed` on any still-free slot of the subset
        if placed == total {
            out.push(cur.clone());
            return;
        }
        for s in 0..n {
            if subset >> s & 1 == 1 && !used[s] {
                used[s] = true;
                cur[s] = Some(placed);
                rec(n, cur, used, placed + 1, total, out, subset);
                cur[s] = None;
                used[s] = false;
            }
        }
    }
    let mut out = Vec::new();
    for subset in 0u32..(1 << n) {
        let mut cur = vec![None; n];
        let mut used = vec![false; n];
        rec(n, &mut cur, &mut used, 0, subset.count_ones(), &mut out, subset);
    }
    out
}
// ------------------------------------------------------------------------------------------------
// 1. one device, up to 8 rounds
// ------------------------------------------------------------------------------------------------
#[derive(Clone, Debug)]
enum DevKind {
    Invert,
    Gear(GearCtor),
    Axle(usize),
}
impl DevKind {
    fn tag(&self) -> String {
        match self {
            DevKind::Invert => "Invert".into(),
            DevKind::Gear(g) => g.tag(),
            DevKind::Axle(n) => format!("Axle<{}>", n),
        }
    }
    fn terms(&self) -> usize {
        match self {
            DevKind::Axle(n) => *n,
            _ => 2,
        }
    }
    fn map(&self) -> Map {
        match self {
            DevKind::Invert => Map::Invert,
            DevKind::Gear(g) => Map::Gear(g.ratio()),
            DevKind::Axle(_) => Map::Axle,
        }
    }
    fn side(&self, k: usize) -> usize {
        match self {
            DevKind::Axle(_) => 0,
            _ => k,
        }
    }
}
/// What a single-device case does (structure only; values come from the rng).
#[derive(Clone, Debug)]
struct Plan {
    dev: DevKind,
    conn: Vec<bool>,
    /// round 0: rank (stamp order) per slot 2k (own) / 2k+1 (external), None = no command
    first: Vec<Option<u32>>,
    /// kind of the newest command of round 0
    first_kind: usize,
    rounds: usize,
    /// per slot: the slot follows a scripted getter (all its commands arrive through it)
    follow: Vec<bool>,
    /// stamps from the whole i64 range (the crate only compares command stamps)
    extreme: bool,
    /// 0: terminals taken from the device where it was built. 1: update() once, then the device
    /// is moved, then terminals taken. 2: update(), a command set on one terminal, update(), move.
    premove: u8,
    move_kind: usize,
}
impl Plan {
    fn usable(&self) -> usize {
        self.conn.len() + self.conn.iter().filter(|c| **c).count()
    }
    fn followers(&self) -> usize {
        (0..self.follow.len()).filter(|&s| self.follow[s] && (s % 2 == 0 || self.conn[s / 2])).count()
    }
}
/// The three one-degree-of-freedom devices behind one interface (terminals are only ever taken
/// from the device at its FINAL location).
trait Dev<'a>: Updatable<E> {
    fn terms(&self) -> Vec<&'a Term<'a>>;
}
impl<'a> Dev<'a> for Invert<'a, E> {
    fn terms(&self) -> Vec<&'a Term<'a>> {
        vec![self.get_terminal_1(), self.get_terminal_2()]
    }
}
impl<'a> Dev<'a> for GearTrain<'a, E> {
    fn terms(&self) -> Vec<&'a Term<'a>> {
        vec![self.get_terminal_1(), self.get_terminal_2()]
    }
}
impl<'a, const N: usize> Dev<'a> for Axle<'a, N, E> {
    fn terms(&self) -> Vec<&'a Term<'a>> {
        (0..N).map(|i| self.get_terminal(i)).collect()
    }
}
const MOVES: [&str; 4] = ["boxed", "pushed-into-vec", "struct-field", "returned-from-function"];
struct Holder<T> {
    pad: [u64; 5],
    dev: T,
}
#[inline(never)]
fn build_holder<T>(dev: T, pad: u64) -> Holder<T> {
    Holder { pad: [pad; 5], dev }
}
#[inline(never)]
fn hand_over<T>(dev: T) -> Box<(u64, T)> {
    Box::new((7, dev))
}
/// Build-time life of the device before the case proper: nothing / update() / update(), a command
/// on one terminal, update() again - and then the device object is MOVED. No terminal reference
/// taken before the move is used after it.
fn run_dev<'a, D: Dev<'a>>(ctx: &mut Ctx, rng: &mut Rng, plan: &Plan, mut dev: D, ext: &'a [Term<'a>]) {
    let fam = plan.dev.map().family();
    let tag = plan.dev.tag();
    let n = plan.dev.terms();
    let mut stamps = Stamps::new(rng, plan.extreme, (plan.rounds * plan.usable()) as u64 + 1, (plan.rounds * plan.followers()) as u64);
    let mut pre: Option<(usize, Datum<Command>)> = None;
    let mut pre_note = String::new();
    if plan.premove > 0 {
        ctx.rep.eval();
        match catch(|| dev.update()) {
            Ok(Ok(())) => {}
            other => {
                ctx.bad(format!("C13/update/{}/failed-on-fresh-device", fam), format!("update of the freshly built {} -> {:?}", tag, other));
                return;
            }
        }
        pre_note = "update() once".into();
        // a command before the move: only on an own slot that will not follow a getter
        let free: Vec<usize> = (0..n).filter(|&k| !plan.follow[2 * k]).collect();
        if plan.premove == 2 && !free.is_empty() {
            let k = *rng.pick(&free);
            let d = Datum::new(Time(stamps.next(rng)), mk_cmd(rng.usize(3), gen_value(rng, plan.dev.map().exact())));
            let r = {
                let ts = dev.terms();
                set_cmd(ts[k], d)
            };
            ctx.rep.eval();
            match (r, catch(|| dev.update())) {
                (Ok(Ok(())), Ok(Ok(()))) => {}
                other => {
                    ctx.bad(format!("C13/update/{}/failed-before-move", fam), format!("{}: set({}) on terminal #{} then update -> {:?}", tag, fmt_cmd(&d), k, other));
                    return;
                }
            }
            pre = Some((2 * k, d));
            pre_note = format!("update(), own#{}.set({}), update()", k, fmt_cmd(&d));
            ctx.rep.tally(&format!("command_issued_before_move/{}", fam));
        }
        ctx.rep.tally(&format!("moved_after_update/{}/{}", tag, MOVES[plan.move_kind]));
        ctx.rep.tally(&format!("moved_after_update/{}", fam));
    }
    let note = if plan.premove > 0 { format!("built, {}, then {}, then terminals taken", pre_note, MOVES[plan.move_kind]) } else { String::new() };
    if plan.premove == 0 {
        let terms = dev.terms();
        engine(ctx, rng, &mut dev, &terms, ext, plan, stamps, pre, &note);
        return;
    }
    match plan.move_kind {
        0 => {
            let mut b = Box::new(dev);
            let terms = b.terms();
            engine(ctx, rng, &mut *b, &terms, ext, plan, stamps, pre, &note);
        }
        1 => {
            let mut v: Vec<D> = Vec::with_capacity(2);
            v.push(dev);
            let terms = v[0].terms();
            engine(ctx, rng, &mut v[0], &terms, ext, plan, stamps, pre, &note);
        }
        2 => {
            let mut h = build_holder(dev, rng.next_u64());
            let terms = h.dev.terms();
            engine(ctx, rng, &mut h.dev, &terms, ext, plan, stamps, pre, &note);
            std::hint::black_box(&h.pad);
        }
        _ => {
            let mut b = hand_over(dev);
            let terms = b.1.terms();
            engine(ctx, rng, &mut b.1, &terms, ext, plan, stamps, pre, &note);
        }
    }
}
fn single_case(ctx: &mut Ctx, rng: &mut Rng, plan: &Plan) {
    macro_rules! axle {
        ($n:literal) => {{
            let ext: [Term<'_>; 6] = core::array::from_fn(|_| Terminal::new());
            let dev = Axle::<$n, E>::new();
            run_dev(ctx, rng, plan, dev, &ext)
        }};
    }
    match &plan.dev {
        DevKind::Invert => {
            let ext: [Term<'_>; 6] = core::array::from_fn(|_| Terminal::new());
            let dev = Invert::<E>::new();
            run_dev(ctx, rng, plan, dev, &ext)
        }
        DevKind::Gear(g) => {
            let ext: [Term<'_>; 6] = core::array::from_fn(|_| Terminal::new());
            let dev: GearTrain<'_, E> = match catch(|| g.build()) {
                Ok(d) => d,
                Err(p) => {
                    ctx.rep.eval();
                    ctx.bad("C13/construct/GearTrain/panic".into(), format!("constructor {:?} panicked: {}", g, p));
                    return;
                }
            };
            run_dev(ctx, rng, plan, dev, &ext)
        }
        DevKind::Axle(1) => axle!(1),
        DevKind::Axle(2) => axle!(2),
        DevKind::Axle(3) => axle!(3),
        DevKind::Axle(4) => axle!(4),
        DevKind::Axle(5) => axle!(5),
        DevKind::Axle(_) => axle!(6),
    }
}
#[allow(clippy::too_many_arguments)]
fn engine<'a>(ctx: &mut Ctx, rng: &mut Rng, dev: &mut dyn Updatable<E>, terms: &[&'a Term<'a>], ext: &'a [Term<'a>], plan: &Plan, mut stamps: Stamps, pre: Option<(usize, Datum<Command>)>, note: &str) {
    let n = terms.len();
    let map = plan.dev.map();
    let tag = plan.dev.tag();
    let fam = map.family();
    for k in 0..n {
        if plan.conn[k] {
            connect(terms[k], &ext[k]);
        }
    }
    let slot_term = |s: usize| -> &Term<'a> {
        if s % 2 == 0 {
            terms[s / 2]
        } else {
            &ext[s / 2]
        }
    };
    let usable: Vec<usize> = (0..2 * n).filter(|&s| s % 2 == 0 || plan.conn[s / 2]).collect();
    // ---- followers: the slot's commands all arrive through a scripted getter
    let follows = |s: usize| plan.follow[s] && (s % 2 == 0 || plan.conn[s / 2]);
    let srcs: Vec<CSrc> = (0..2 * n).map(|_| CSrc::new()).collect();
    let mut src_now: Vec<Option<Datum<Command>>> = vec![None; 2 * n];
    for s in 0..2 * n {
        if follows(s) {
            follow_cmd(slot_term(s), &srcs[s]);
        }
    }
    let followers: Vec<usize> = (0..2 * n).filter(|&s| follows(s)).collect();
    let mut ops: Vec<Op> = Vec::new();
    // a command issued before the device was moved is present at its terminal like any other
    let mut newest: Option<(usize, Datum<Command>)> = pre;
    let mut issuers: Vec<Option<usize>> = Vec::new();
    let mut extras: Vec<(u32, u32)> = Vec::new();
    let p_state = *rng.pick(&[0.0, 0.3, 0.8]);
    let header = format!("{} {:?} connected-externals {:?} slots-following-a-getter {:?}{}{}", tag, plan.dev, plan.conn, followers.iter().map(|&s| slot_name(s)).collect::<Vec<_>>(), if note.is_empty() { String::new() } else { format!(" [device: {}]", note) }, if plan.extreme { " [stamps from the whole i64 range]" } else { "" });
    if plan.extreme {
        ctx.rep.tally(&format!("extreme_stamp_cases/{}", fam));
    }
    for round in 0..plan.rounds {
        stamps.budget(((plan.rounds - round) * usable.len()) as u64, ((plan.rounds - round) * followers.len()) as u64);
        // ---- slots that receive a new command, in stamp order
        let mut order: Vec<usize> = if round == 0 {
            let mut v: Vec<(u32, usize)> = plan.first.iter().enumerate().filter_map(|(s, r)| r.map(|r| (r, s))).collect();
            v.sort();
            v.into_iter().map(|(_, s)| s).collect()
        } else {
            let q = *rng.pick(&[0.0, 0.15, 0.5, 1.0]);
            let mut v: Vec<usize> = usable.iter().cloned().filter(|_| rng.chance(q)).collect();
            for i in (1..v.len()).rev() {
                let j = rng.usize(i + 1);
                v.swap(i, j);
            }
            v
        };
        let mut writes: Vec<(usize, Datum<Command>)> = Vec::new();
        let cnt = order.len();
        for (i, s) in order.drain(..).enumerate() {
            let kind = if round == 0 && i + 1 == cnt { plan.first_kind } else { rng.usize(3) };
            let d = Datum::new(Time(stamps.next(rng)), mk_cmd(kind, gen_value(rng, map.exact())));
            writes.push((s, d));
        }
        if let Some(&(s, d)) = writes.last() {
            newest = Some((s, d));
            ctx.rep.tally(&format!("newest_at/{}/{}", tag, slot_name(s)));
            ctx.rep.tally(&format!("newest_kind/{}", KIND_NAMES[kind_of(&d.value)]));
            if follows(s) {
                ctx.rep.tally(&format!("newest_followed_at/{}/{}", tag, slot_name(s)));
                ctx.rep.tally(&format!("followed/{}/{}/newest-of-all", fam, if s % 2 == 0 { "device-terminal" } else { "external-terminal" }));
            }
        } else {
            ctx.rep.tally(if newest.is_some() { "rounds_without_new_command(re-update)" } else { "rounds_without_any_command" });
        }
        issuers.push(writes.last().map(|w| w.0));
        // ---- followed getters: an OLDER command (never at the slot that issued the newest one), or absent
        let (mut older_mask, mut absent_mask) = (0u32, 0u32);
        let fresh: Vec<usize> = writes.iter().map(|w| w.0).collect();
        for &s in &followers {
            if fresh.contains(&s) {
                continue;
            }
            let r = rng.below(10);
            if r < 2 && newest.is_some() && newest.map(|x| x.0) != Some(s) {
                let d = Datum::new(Time(stamps.older(rng)), mk_cmd(rng.usize(3), gen_value(rng, map.exact())));
                writes.push((s, d));
                older_mask |= 1 << s;
                ctx.rep.tally(&format!("followed/{}/{}/older-than-present", fam, if s % 2 == 0 { "device-terminal" } else { "external-terminal" }));
            } else if r < 4 {
                ops.push(Op::Src(s, None));
                srcs[s].none();
                src_now[s] = None;
                absent_mask |= 1 << s;
                ctx.rep.tally(&format!("followed/{}/{}/getter-absent", fam, if s % 2 == 0 { "device-terminal" } else { "external-terminal" }));
            }
        }
        extras.push((older_mask, absent_mask));
        // the order of the set() calls is unrelated to the stamp order
        for i in (1..writes.len()).rev() {
            let j = rng.usize(i + 1);
            writes.swap(i, j);
        }
        for &(s, d) in &writes {
            if follows(s) {
                ops.push(Op::Src(s, Some(d)));
                src_put(rng, &srcs[s], d);
                src_now[s] = Some(d);
                ctx.rep.tally(&format!("delivered/{}/follow", fam));
                continue;
            }
            ctx.rep.tally(&format!("delivered/{}/set", fam));
            ops.push(Op::Cmd(s, d));
            match set_cmd(slot_term(s), d) {
                Ok(Ok(())) => {}
                other => {
                    ctx.rep.eval();
                    ctx.bad("C13/write/command-failed".into(), format!("set(command) -> {:?}; {} history {}", other, header, fmt_ops(&ops)));
                    return;
                }
            }
        }
        // external followers are polled by the harness (nobody else updates an external terminal)
        for &s in &followers {
            if s % 2 == 1 {
                ops.push(Op::TermUpdate(s));
                ctx.rep.eval();
                match term_update(slot_term(s)) {
                    Ok(Ok(())) => {}
                    other => {
                        ctx.bad("C13/follow/external-terminal-update-failed".into(), format!("Terminal::update -> {:?}; {} history {}", other, header, fmt_ops(&ops)));
                        return;
                    }
                }
            }
        }
        for &s in &usable {
            if rng.chance(p_state) {
                let t = stamps.state_stamp(rng);
                let d = gen_state_at(rng, t);
                ops.push(Op::St(s, d));
                match set_state(slot_term(s), d) {
                    Ok(Ok(())) => {}
                    other => {
                        ctx.rep.eval();
                        ctx.bad("C13/write/state-failed".into(), format!("set(state) -> {:?}; {} history {}", other, header, fmt_ops(&ops)));
                        return;
                    }
                }
            }
        }
        // ---- premise: the newest issued command is what is readable at the terminals
        let pre: Vec<Result<Out<Command>, String>> = (0..n).map(|k| read_cmd(terms[k])).collect();
        // (a command waiting in a getter followed by a device terminal becomes present inside update())
        let pending = followers.iter().filter(|&&s| s % 2 == 0).filter_map(|&s| src_now[s].map(|d| d.time));
        let pre_max = pre.iter().filter_map(|r| if let Ok(Ok(Some(d))) = r { Some(d.time) } else { None }).chain(pending).max();
        if pre_max != newest.map(|x| x.1.time) {
            ctx.rep.tally("premise_newest_not_readable_before_update");
            return;
        }
        let own_before: Vec<Option<Datum<Command>>> = (0..n).map(|k| own_cmd(terms[k])).collect();
        // ---- coverage: two terminals presenting commands whose stamps are >= 2^63 apart
        if plan.extreme {
            let ts: Vec<Option<i128>> = pre.iter().map(|r| if let Ok(Ok(Some(d))) = r { Some(d.time.0 as i128) } else { None }).collect();
            let mut far = false;
            for a in 0..n {
                for b in a + 1..n {
                    if let (Some(x), Some(y)) = (ts[a], ts[b]) {
                        if (x - y).abs() >= 1i128 << 63 {
                            far = true;
                            if n == 2 {
                                ctx.rep.tally(&format!("extreme_pair_beyond_2^63/{}/newer-on-side-{}", fam, if x > y { 1 } else { 2 }));
                            }
                        }
                    }
                }
            }
            if far {
                ctx.rep.tally(&format!("extreme_pair_beyond_2^63/{}", fam));
            }
            if ts.iter().flatten().any(|&t| t == i64::MIN as i128 || t == i64::MAX as i128) {
                ctx.rep.tally("extreme_stamp_at_i64_limit_present");
            }
        }
        // ---- update
        ops.push(Op::Update(0));
        ctx.rep.eval();
        ctx.rep.tally(&format!("updates/{}", tag));
        match catch(|| dev.update()) {
            Ok(Ok(())) => {}
            Ok(Err(e)) => {
                ctx.bad(format!("C13/update/{}/err", fam), format!("update returned {:?}; {} history {}", e, header, fmt_ops(&ops)));
                return;
            }
            Err(p) => {
                ctx.bad(format!("C13/update/{}/panic", fam), format!("update panicked: {}; {} history {}", p, header, fmt_ops(&ops)));
                return;
            }
        }
        let (issuer, nd) = match newest {
            Some(x) => x,
            None => {
                // no command present anywhere: the statement promises nothing; record what is seen
                let any = (0..n).any(|k| !matches!(read_cmd(terms[k]), Ok(Ok(None))));
                ctx.rep.tally(if any { "no_command_present/some_read_not_none(not_judged)" } else { "no_command_present/all_reads_none" });
                continue;
            }
        };
        let from = plan.dev.side(issuer / 2);
        let v = f32::from(nd.value);
        let mut all_ok = true;
        for k in 0..n {
            let (val, tol, route) = map.map(from, plan.dev.side(k), v);
            for site in 0..2 {
                if site == 1 && !plan.conn[k] {
                    continue;
                }
                let t = if site == 0 { terms[k] } else { &ext[k] };
                let got = read_cmd(t);
                let det = || {
                    format!(
                        "{}; after the last update, {} terminal #{} (side {}) reads {}; newest command present before the update: {} issued at {} (side {}), expected here {}({})@{}; command reads at the device terminals before the update {:?}; own command slots before {:?} after {:?}; history {}",
                        header,
                        if site == 0 { "device" } else { "external terminal connected to" },
                        k,
                        plan.dev.side(k) + 1,
                        fmt_read(&got),
                        fmt_cmd(&nd),
                        slot_name(issuer),
                        from + 1,
                        KIND_NAMES[kind_of(&nd.value)],
                        f(val),
                        nd.time.0,
                        pre.iter().map(fmt_read).collect::<Vec<_>>(),
                        own_before.iter().map(fmt_ocmd).collect::<Vec<_>>(),
                        (0..n).map(|k| fmt_ocmd(&own_cmd(terms[k]))).collect::<Vec<_>>(),
                        fmt_ops(&ops)
                    )
                };
                let base = format!("C13/relay/{}/{}", fam, if site == 0 { "device-terminal" } else { "external-terminal" });
                ctx.rep.tally(&format!("reads_checked/{}/{}", fam, route));
                if let DevKind::Gear(_) = plan.dev {
                    ctx.rep.tally(&format!("reads_checked/{}/{}", tag, route));
                }
                if !judge(ctx, &base, route, &got, nd.time, kind_of(&nd.value), val, tol, &format!("value_ulp/{}/{}", fam, route), &det) {
                    all_ok = false;
                }
            }
        }
        ctx.rep.tally(&format!("rounds_checked/round{}", round));
        if !all_ok {
            return; // later rounds would only echo the divergence
        }
    }
    ctx.rep.tally(&format!("cases_completed/{}", ctx.sub));
    ctx.rep.distinct((ctx.sub, tag.clone(), plan.conn.clone(), plan.first.clone(), plan.first_kind, issuers, followers.clone(), extras, plan.extreme, plan.premove, plan.move_kind));
    if ctx.rep.want_sample(ctx.sub) {
        ctx.rep.sample(ctx.sub, format!("{}; history {}: after every update every device terminal and connected external terminal read the newest command, mapped", header, fmt_ops(&ops)));
    }
}
/// Random connection pattern compatible with a first-round assignment (a commanded external slot is connected).
fn conn_for(rng: &mut Rng, first: &[Option<u32>]) -> Vec<bool> {
    (0..first.len() / 2).map(|k| first[2 * k + 1].is_some() || rng.chance(0.5)).collect()
}
fn random_dev(rng: &mut Rng) -> DevKind {
    match rng.below(12) {
        0 | 1 => DevKind::Invert,
        2 => DevKind::Gear(GearCtor::random(rng, 0)),
        3 => DevKind::Gear(GearCtor::random(rng, 1)),
        4 | 5 => {
            let w = 2 + rng.below(5);
            DevKind::Gear(GearCtor::random(rng, w))
        }
        k => DevKind::Axle(k as usize - 5),
    }
}
/// Which slots follow a getter: mode 0 none, 1 all, otherwise each with a probability drawn per case.
fn follow_mask(rng: &mut Rng, nslots: usize, mode: u64) -> Vec<bool> {
    let p = match mode {
        0 => 0.0,
        1 => 1.0,
        _ => *rng.pick(&[0.3, 0.7]),
    };
    (0..nslots).map(|_| rng.chance(p)).collect()
}
/// Random first-round assignment: each slot commanded with probability q, random order.
fn random_first(rng: &mut Rng, nslots: usize) -> Vec<Option<u32>> {
    let q = *rng.pick(&[0.2, 0.5, 0.9]);
    let mut slots: Vec<usize> = (0..nslots).filter(|_| rng.chance(q)).collect();
    for i in (1..slots.len()).rev() {
        let j = rng.usize(i + 1);
        slots.swap(i, j);
    }
    let mut first = vec![None; nslots];
    for (r, s) in slots.into_iter().enumerate() {
        first[s] = Some(r as u32);
    }
    first
}
// ------------------------------------------------------------------------------------------------
// 2. chains
// ------------------------------------------------------------------------------------------------
#[derive(Clone, Debug)]
struct Link {
    /// 0 inverter, 1 gear train, 2 axle<2>
    kind: u8,
    gear: GearCtor,
    /// the chain enters this device (in forward direction) at its terminal 2
    flipped: bool,
}
impl Link {
    fn family(&self) -> &'static str {
        ["Invert", "GearTrain", "Axle"][self.kind as usize]
    }
    /// value after crossing this device in the given direction of travel
    fn cross(&self, x: f32, forward: bool) -> f32 {
        match self.kind {
            0 => -x,
            1 => {
                // entering at side 1 iff (forward and not flipped) or (backward and flipped)
                if forward != self.flipped {
                    x * self.gear.ratio()
                } else {
                    x / self.gear.ratio()
                }
            }
            _ => x,
        }
    }
}
fn chain_case(ctx: &mut Ctx, seed: u64) {
    let mut rng = Rng::new(seed, 1304, ctx.case);
    let rng = &mut rng;
    // quotas by case number: length, direction of the first round
    let n = 1 + (ctx.case % 5) as usize;
    let first_forward = (ctx.case / 5) % 2 == 0;
    let links: Vec<Link> = (0..n)
        .map(|_| {
            let kind = rng.below(3) as u8;
            let w = *rng.pick(&[0u64, 0, 1, 1, 2, 3, 4, 5, 6]);
            Link { kind, gear: GearCtor::random(rng, w), flipped: rng.chance(0.5) }
        })
        .collect();
    let conn_near = rng.chance(0.5);
    let conn_far = rng.chance(0.5);
    // ---- the devices are built in one place, in some cases updated once there (no terminal has
    // been handed out yet), then each is moved into its own box; terminals are taken only from the
    // final location, which never moves afterwards
    let ext: [Term<'_>; 2] = core::array::from_fn(|_| Terminal::new());
    let mut invs0: [Invert<'_, E>; 5] = core::array::from_fn(|_| Invert::new());
    let mut gears0: Vec<GearTrain<'_, E>> = links.iter().map(|l| l.gear.build()).collect();
    let mut axs0: [Axle<'_, 2, E>; 5] = core::array::from_fn(|_| Axle::new());
    let updated_before_move = rng.chance(0.4);
    if updated_before_move {
        ctx.rep.eval();
        let mut r: Vec<Result<NothingOrError<E>, String>> = Vec::new();
        for d in invs0.iter_mut() {
            r.push(catch(|| d.update()));
        }
        for d in gears0.iter_mut() {
            r.push(catch(|| d.update()));
        }
        for d in axs0.iter_mut() {
            r.push(catch(|| d.update()));
        }
        if r.iter().any(|x| !matches!(x, Ok(Ok(())))) {
            ctx.bad("C13/update/chain/failed-on-fresh-device".into(), format!("update of freshly built devices -> {:?}", r));
            return;
        }
        ctx.rep.tally("chain_devices_updated_then_moved");
        for l in &links {
            ctx.rep.tally(&format!("chain_moved_after_update/{}", l.family()));
        }
    }
    let mut invs: Vec<Box<Invert<'_, E>>> = invs0.into_iter().map(Box::new).collect();
    let mut gears: Vec<Box<GearTrain<'_, E>>> = gears0.into_iter().map(Box::new).collect();
    let mut axs: Vec<Box<Axle<'_, 2, E>>> = axs0.into_iter().map(Box::new).collect();
    // (near, far) terminal of each device
    let terms: Vec<(&Term<'_>, &Term<'_>)> = (0..n)
        .map(|i| {
            let (a, b) = match links[i].kind {
                0 => (invs[i].get_terminal_1(), invs[i].get_terminal_2()),
                1 => (gears[i].get_terminal_1(), gears[i].get_terminal_2()),
                _ => (axs[i].get_terminal(0), axs[i].get_terminal(1)),
            };
            if links[i].flipped {
                (b, a)
            } else {
                (a, b)
            }
        })
        .collect();
    for i in 0..n - 1 {
        if rng.chance(0.5) {
            connect(terms[i].1, terms[i + 1].0);
        } else {
            connect(terms[i + 1].0, terms[i].1);
        }
    }
    if conn_near {
        connect(&ext[0], terms[0].0);
    }
    if conn_far {
        connect(terms[n - 1].1, &ext[1]);
    }
    // ---- followers. End slots [near own, near ext, far own, far ext]: every command injected there
    // arrives through the followed getter. Other device terminals may follow a getter that is absent
    // or holds a command older than everything injected (it issues nothing new).
    let pf = *rng.pick(&[0.0, 0.5, 0.5, 1.0]);
    let end_follow: [bool; 4] = [rng.chance(pf), conn_near && rng.chance(pf), rng.chance(pf), conn_far && rng.chance(pf)];
    let end_src: [CSrc; 4] = core::array::from_fn(|_| CSrc::new());
    let end_term: [&Term<'_>; 4] = [terms[0].0, &ext[0], terms[n - 1].1, &ext[1]];
    for e in 0..4 {
        if end_follow[e] {
            follow_cmd(end_term[e], &end_src[e]);
        }
    }
    // inner terminals: index 2i (near of device i) / 2i+1 (far of device i), the two end terminals excluded
    let inner: Vec<usize> = (1..2 * n - 1).filter(|_| rng.chance(0.15)).collect();
    let inner_src: Vec<CSrc> = inner.iter().map(|_| CSrc::new()).collect();
    for (j, &ix) in inner.iter().enumerate() {
        let t = if ix % 2 == 0 { terms[ix / 2].0 } else { terms[ix / 2].1 };
        follow_cmd(t, &inner_src[j]);
    }
    let header = format!("chain of {}: {:?}; external terminal connected at near end: {}, at far end: {}; end slots following a getter [near own, near ext, far own, far ext] = {:?}; inner device terminals following a getter {:?}", n, links.iter().map(|l| format!("{}{}{}", l.family(), if l.kind == 1 { format!("(r={} via {:?})", f(l.gear.ratio()), l.gear) } else { String::new() }, if l.flipped { "[entered at terminal 2]" } else { "" })).collect::<Vec<_>>(), conn_near, conn_far, end_follow, inner.iter().map(|&ix| format!("dev{}.{}", ix / 2, if ix % 2 == 0 { "near" } else { "far" })).collect::<Vec<_>>());
    // random states here and there (not judged)
    let p_state = *rng.pick(&[0.0, 0.3, 0.8]);
    let rounds = 1 + rng.usize(8);
    let extreme = rng.chance(0.3);
    let mut stamps = Stamps::new(rng, extreme, rounds as u64, (rounds * inner.len()) as u64);
    if extreme {
        ctx.rep.tally("extreme_stamp_cases/chain");
    }
    let mut log: Vec<String> = Vec::new();
    let mut prev_stamp: Option<i64> = None;
    if updated_before_move {
        log.push("[every device: built, update() once, moved into a box, then terminals taken and connected]".into());
    }
    if extreme {
        log.push("[stamps from the whole i64 range]".into());
    }
    let mut shape: Vec<(bool, bool, bool, u32)> = Vec::new();
    for round in 0..rounds {
        let forward = if round == 0 { first_forward } else { rng.chance(0.5) };
        let dir = if forward { "forward" } else { "backward" };
        for i in 0..n {
            for t in [terms[i].0, terms[i].1] {
                if rng.chance(p_state) {
                    let ts = stamps.state_stamp(rng);
                    let _ = set_state(t, gen_state_at(rng, ts));
                }
            }
        }
        // ---- inject at the entry end
        let (entry_own, entry_ext, entry_conn) = if forward { (terms[0].0, &ext[0], conn_near) } else { (terms[n - 1].1, &ext[1], conn_far) };
        let via_ext = entry_conn && rng.chance(0.6);
        let kind = rng.usize(3);
        // |c| <= 1e20 so that the product over five gear trains stays a normal f32
        let c = Datum::new(Time(stamps.next(rng)), mk_cmd(kind, gen_value_in(rng, false, 1e20)));
        // inner followers: absent, or an older command (round 0: none has been injected yet, so only absent)
        let mut inner_mask = 0u32;
        for (j, &ix) in inner.iter().enumerate() {
            match rng.below(4) {
                0 if round > 0 => {
                    let d = Datum::new(Time(stamps.older(rng)), mk_cmd(rng.usize(3), gen_value_in(rng, false, 1e20)));
                    src_put(rng, &inner_src[j], d);
                    log.push(format!("getter followed by the {} terminal of dev{} := {}", if ix % 2 == 0 { "near" } else { "far" }, ix / 2, fmt_cmd(&d)));
                    inner_mask |= 1 << ix;
                    ctx.rep.tally("chain_inner_follower/older-command");
                }
                1 => {
                    inner_src[j].none();
                    log.push(format!("getter followed by the {} terminal of dev{} := None", if ix % 2 == 0 { "near" } else { "far" }, ix / 2));
                    ctx.rep.tally("chain_inner_follower/absent");
                }
                _ => {}
            }
        }
        let e = (if forward { 0 } else { 2 }) + via_ext as usize;
        let followed = end_follow[e];
        log.push(format!("{} end {}{}({})", if forward { "near" } else { "far" }, if via_ext { "external terminal" } else { "device terminal" }, if followed { ": followed getter := " } else { ".set" }, fmt_cmd(&c)));
        shape.push((forward, via_ext, followed, inner_mask));
        if followed {
            src_put(rng, &end_src[e], c);
            if via_ext {
                // an external terminal is polled by the harness
                log.push("that external terminal .update()".into());
                ctx.rep.eval();
                match term_update(entry_ext) {
                    Ok(Ok(())) => {}
                    other => {
                        ctx.bad("C13/follow/external-terminal-update-failed".into(), format!("Terminal::update -> {:?}; {} history {:?}", other, header, log));
                        return;
                    }
                }
            }
        } else {
            match set_cmd(if via_ext { entry_ext } else { entry_own }, c) {
                Ok(Ok(())) => {}
                other => {
                    ctx.rep.eval();
                    ctx.bad("C13/write/command-failed".into(), format!("set(command) -> {:?}; {} history {:?}", other, header, log));
                    return;
                }
            }
        }
        ctx.rep.tally(&format!("chain_rounds/len{}/{}", n, dir));
        if let Some(p) = prev_stamp {
            if (c.time.0 as i128 - p as i128) >= 1i128 << 63 {
                ctx.rep.tally("extreme_chain_injection_beyond_2^63_after_previous");
            }
        }
        prev_stamp = Some(c.time.0);
        ctx.rep.tally(&format!("chain_inject/{}", if via_ext { "external" } else { "own-slot" }));
        ctx.rep.tally(&format!("chain_inject/{}/{}/{}", dir, if via_ext { "external" } else { "own-slot" }, if followed { "followed-getter" } else { "set" }));
        // ---- update in order along the direction of travel
        let order: Vec<usize> = if forward { (0..n).collect() } else { (0..n).rev().collect() };
        let mut x = f32::from(c.value);
        let mut ok = true;
        for (crossed, &i) in order.iter().enumerate() {
            log.push(format!("update(dev{})", i));
            ctx.rep.eval();
            let res = match links[i].kind {
                0 => catch(|| invs[i].update()),
                1 => catch(|| gears[i].update()),
                _ => catch(|| axs[i].update()),
            };
            match res {
                Ok(Ok(())) => {}
                other => {
                    ctx.bad(format!("C13/update/{}/failed", links[i].family()), format!("update of device {} -> {:?}; {} history {:?}", i, other, header, log));
                    return;
                }
            }
            let (t_in, t_out) = if forward { terms[i] } else { (terms[i].1, terms[i].0) };
            let x_out = links[i].cross(x, forward);
            if links[i].kind == 1 {
                ctx.rep.tally(&format!("chain_gear_crossed/{}/{}", links[i].gear.tag(), if forward != links[i].flipped { "1->2" } else { "2->1" }));
            }
            // per-device clause: the newest command present at this device's terminals before its
            // update is the injected one (at its entry terminal): both terminals must now read it
            for (which, t, val, tol) in [("entry", t_in, x, 4 * crossed.max(1) as u64), ("exit", t_out, x_out, 4 * (crossed as u64 + 1))] {
                let got = read_cmd(t);
                let det = || format!("{}; right after update(dev{}) its {} terminal reads {}; injected {} travelling {}, expected {}({})@{} here; history {:?}", header, i, which, fmt_read(&got), fmt_cmd(&c), dir, KIND_NAMES[kind], f(val), c.time.0, log);
                let base = format!("C13/chain/{}/device-{}/{}", dir, which, links[i].family());
                if !judge(ctx, &base, "partial-product", &got, c.time, kind, val, tol, "value_ulp/chain/intermediate", &det) {
                    ok = false;
                }
            }
            x = x_out;
            if !ok {
                return;
            }
        }
        // ---- far end
        let (exit_own, exit_ext, exit_conn) = if forward { (terms[n - 1].1, &ext[1], conn_far) } else { (terms[0].0, &ext[0], conn_near) };
        // independent f64 reference of c x product of ratios (reported, and judged with the same tolerance)
        let mut prod = f32::from(c.value) as f64;
        for &i in &order {
            prod = match links[i].kind {
                0 => -prod,
                1 => {
                    if forward != links[i].flipped {
                        prod * links[i].gear.ratio() as f64
                    } else {
                        prod / links[i].gear.ratio() as f64
                    }
                }
                _ => prod,
            };
        }
        for site in 0..2 {
            if site == 1 && !exit_conn {
                continue;
            }
            let t = if site == 0 { exit_own } else { exit_ext };
            let got = read_cmd(t);
            let det = || format!("{}; after updating devices {:?} in this order the {} at the {} end reads {}; injected {} at the other end, expected {}({})@{} = c x product of ratios (f64 reference {:e}); history {:?}", header, order, if site == 0 { "device terminal" } else { "external terminal" }, if forward { "far" } else { "near" }, fmt_read(&got), fmt_cmd(&c), KIND_NAMES[kind], f(x), c.time.0, prod, log);
            let base = format!("C13/chain/{}/far-end/{}", dir, if site == 0 { "device-terminal" } else { "external-terminal" });
            ctx.rep.tally(&format!("chain_far_end_checked/len{}/{}", n, dir));
            if !judge(ctx, &base, "product", &got, c.time, kind, x, 4 * n as u64, "value_ulp/chain/far-end", &det) {
                return;
            }
            // the f32 step-by-step expectation itself agrees with the f64 product (guards the oracle)
            if let Ok(Ok(Some(d))) = &got {
                let (okr, ratio) = within(f32::from(d.value), prod, 4.0 * n as f64 * 2.0 * U * prod.abs());
                ctx.rep.eval();
                ctx.rep.max("chain_far_end_err_over_bound_vs_f64_product", ratio);
                if !okr {
                    ctx.bad(format!("C13/chain/{}/far-end/f64-product", dir), det());
                    return;
                }
            }
        }
    }
    ctx.rep.tally("cases_completed/chain");
    ctx.rep.distinct(("chain", links.iter().map(|l| (l.kind, l.flipped, l.gear.tag())).collect::<Vec<_>>(), conn_near, conn_far, shape, end_follow, inner.clone(), extreme, updated_before_move));
    if ctx.rep.want_sample("chain") {
        ctx.rep.sample("chain", format!("{}; history {:?}: every device terminal right after its update and the far end after the pass read the injected command x partial / full product", header, log));
    }
}
// ------------------------------------------------------------------------------------------------
// 3. differential: update never alters commands
// ------------------------------------------------------------------------------------------------
const DIFF_MODES: [&str; 5] = ["new()", "Side1", "Side2", "Sum", "Equal"];
fn diff_case(ctx: &mut Ctx, seed: u64) {
    let mut rng = Rng::new(seed, 1305, ctx.case);
    let rng = &mut rng;
    let mode = (ctx.case % 5) as usize;
    // presence of a state on the six slots in round 0: quota by case number (all 64 masks)
    let state_mask = (ctx.case / 5) % 64;
    let ext: [Term<'_>; 3] = core::array::from_fn(|_| Terminal::new());
    let mut dev: Differential<'_, E> = match mode {
        0 => Differential::new(),
        1 => Differential::with_distrust(DifferentialDistrust::Side1),
        2 => Differential::with_distrust(DifferentialDistrust::Side2),
        3 => Differential::with_distrust(DifferentialDistrust::Sum),
        _ => Differential::with_distrust(DifferentialDistrust::Equal),
    };
    let terms: [&Term<'_>; 3] = [dev.get_side_1(), dev.get_side_2(), dev.get_sum()];
    let conn: Vec<bool> = (0..3).map(|k| state_mask >> (2 * k + 1) & 1 == 1 || rng.chance(0.5)).collect();
    for k in 0..3 {
        if conn[k] {
            connect(terms[k], &ext[k]);
        }
    }
    let slot_term = |s: usize| -> &Term<'_> {
        if s % 2 == 0 {
            terms[s / 2]
        } else {
            &ext[s / 2]
        }
    };
    let usable: Vec<usize> = (0..6).filter(|&s| s % 2 == 0 || conn[s / 2]).collect();
    let header = format!("Differential {} (terminals #0 side1, #1 side2, #2 sum), connected externals {:?}", DIFF_MODES[mode], conn);
    let mut clock = Clock::new(rng);
    let mut ops: Vec<Op> = Vec::new();
    let rounds = 1 + rng.usize(8);
    let mut shape: Vec<(u8, u8)> = Vec::new();
    for round in 0..rounds {
        let qc = *rng.pick(&[0.0, 0.3, 0.7, 1.0]);
        let mut writes: Vec<(usize, Datum<Command>)> = Vec::new();
        let mut cmask = 0u8;
        for &s in &usable {
            if rng.chance(qc) {
                writes.push((s, Datum::new(Time(0), mk_cmd(rng.usize(3), gen_value(rng, true)))));
                cmask |= 1 << s;
            }
        }
        for i in (1..writes.len()).rev() {
            let j = rng.usize(i + 1);
            writes.swap(i, j);
        }
        for w in writes.iter_mut() {
            w.1.time = Time(clock.next(rng));
        }
        for i in (1..writes.len()).rev() {
            let j = rng.usize(i + 1);
            writes.swap(i, j);
        }
        for &(s, d) in &writes {
            ops.push(Op::Cmd(s, d));
            let _ = set_cmd(slot_term(s), d);
        }
        let mut smask = 0u8;
        for &s in &usable {
            let put = if round == 0 { state_mask >> s & 1 == 1 } else { rng.chance(0.4) };
            if put {
                let d = gen_state(rng);
                ops.push(Op::St(s, d));
                let _ = set_state(slot_term(s), d);
                smask |= 1 << s;
            }
        }
        shape.push((cmask, smask));
        let snap = |_: ()| -> (Vec<Option<Datum<Command>>>, Vec<Result<Out<Command>, String>>) { ((0..6).map(|s| own_cmd(slot_term(s))).collect(), (0..6).map(|s| read_cmd(slot_term(s))).collect()) };
        let (own_b, read_b) = snap(());
        let st_b: Vec<Option<Datum<State>>> = (0..3).map(|k| own_state(terms[k])).collect();
        ops.push(Op::Update(0));
        ctx.rep.eval();
        ctx.rep.tally(&format!("differential_updates/{}", DIFF_MODES[mode]));
        match catch(|| dev.update()) {
            Ok(Ok(())) => {}
            other => {
                ctx.bad(format!("C13/differential/{}/update-failed", DIFF_MODES[mode]), format!("update -> {:?}; {} history {}", other, header, fmt_ops(&ops)));
                return;
            }
        }
        let (own_a, read_a) = snap(());
        let st_a: Vec<Option<Datum<State>>> = (0..3).map(|k| own_state(terms[k])).collect();
        let st_changed = (0..3).any(|k| match (&st_b[k], &st_a[k]) {
            (None, None) => false,
            (Some(a), Some(b)) => !(a.time == b.time && ssame(&a.value, &b.value)),
            _ => true,
        });
        if st_changed {
            ctx.rep.tally(&format!("differential_update_wrote_states/{}", DIFF_MODES[mode]));
        }
        if own_b.iter().take(6).step_by(2).any(|c| c.is_some()) {
            ctx.rep.tally("differential_updates_with_command_on_device_terminal");
        }
        let mut ok = true;
        for s in 0..6 {
            if s % 2 == 1 && !conn[s / 2] {
                continue;
            }
            ctx.rep.eval();
            if !ident(&own_b[s], &own_a[s]) {
                ok = false;
                ctx.bad(format!("C13/differential/{}/own-command-changed/{}", DIFF_MODES[mode], if s % 2 == 0 { "device-terminal" } else { "external-terminal" }), format!("{}: own command slot of {} was {} before update and is {} after; history {}", header, slot_name(s), fmt_ocmd(&own_b[s]), fmt_ocmd(&own_a[s]), fmt_ops(&ops)));
            }
            ctx.rep.eval();
            let same_read = match (&read_b[s], &read_a[s]) {
                (Ok(Ok(a)), Ok(Ok(b))) => ident(a, b),
                _ => false,
            };
            if !same_read {
                ok = false;
                ctx.bad(format!("C13/differential/{}/command-read-changed/{}", DIFF_MODES[mode], if s % 2 == 0 { "device-terminal" } else { "external-terminal" }), format!("{}: command read at {} was {} before update and is {} after; history {}", header, slot_name(s), fmt_read(&read_b[s]), fmt_read(&read_a[s]), fmt_ops(&ops)));
            }
        }
        if !ok {
            return;
        }
    }
    ctx.rep.tally("cases_completed/differential");
    ctx.rep.distinct(("differential", mode, conn.clone(), shape));
    if ctx.rep.want_sample("differential") {
        ctx.rep.sample("differential", format!("{}; history {}: own command slots and command reads bit-identical across every update", header, fmt_ops(&ops)));
    }
}
// ------------------------------------------------------------------------------------------------
fn main() {
    let args = Args::parse();
    let mut rep = Report::new("C13", &args);
    // ---- 1. every assignment of {no command, distinct stamps} to the slots of the small devices,
    //         x kind of the newest command, then random further rounds
    {
        let a2 = assignments(2);
        let a4 = assignments(4);
        let a6 = assignments(6);
        // device variants: (name, terminals)
        let variants: Vec<(u64, usize)> = vec![(0, 2), (1, 2), (2, 2), (3, 2), (4, 2), (5, 2), (6, 2), (7, 2), (8, 2), (9, 1), (10, 3)];
        let reps = args.pick(4, 300);
        let mut idx = 0u64;
        for rpt in 0..reps {
            for &(variant, nterm) in &variants {
                if variant == 10 && rpt % 4 >= 2 {
                    continue; // Axle<3> (1957 assignments): only the all-by-set and all-by-followed-getter repetitions
                }
                let asg = match nterm {
                    1 => &a2,
                    2 => &a4,
                    _ => &a6,
                };
                for first in asg.iter() {
                    for first_kind in 0..3usize {
                        let case = idx;
                        idx += 1;
                        if !args.mine("assign", case) {
                            continue;
                        }
                        let mut rng = Rng::new(args.seed, 1301, case);
                        let dev = match variant {
                            0 => DevKind::Invert,
                            1 => DevKind::Gear(GearCtor::random(&mut rng, 0)),
                            2 => DevKind::Gear(GearCtor::random(&mut rng, 1)),
                            3..=7 => DevKind::Gear(GearCtor::random(&mut rng, variant - 1)),
                            8 => DevKind::Axle(2),
                            9 => DevKind::Axle(1),
                            _ => DevKind::Axle(3),
                        };
                        let conn = conn_for(&mut rng, first);
                        let rounds = if rng.chance(0.5) { 1 + rng.usize(3) } else { 1 + rng.usize(8) };
                        // delivery: repetition 0 of every four all by set(), 1 all by followed getters, 2-3 mixed
                        let follow = follow_mask(&mut rng, first.len(), rpt % 4);
                        rep.tally(["assign_cases/all-by-set", "assign_cases/all-by-followed-getter", "assign_cases/mixed", "assign_cases/mixed"][(rpt % 4) as usize]);
                        // (no command before the move here: the enumerated assignment stays what it says)
                        let (extreme, premove, move_kind) = (rng.chance(0.3), rng.chance(0.25) as u8, rng.usize(4));
                        let plan = Plan { dev, conn, first: first.clone(), first_kind, rounds, follow, extreme, premove, move_kind };
                        rep.tally("assign_cases");
                        let mut ctx = Ctx { rep: &mut rep, sub: "assign", case };
                        single_case(&mut ctx, &mut rng, &plan);
                    }
                }
            }
        }
        rep.exhaustive("Invert, GearTrain (with_ratio_raw, with_ratio, new with 2..6 gears), Axle<1>, Axle<2>, Axle<3>: every assignment of {no command, distinct stamp ranks} to the own and external slots (5 / 65 / 1957 assignments) x kind of the newest command, once with every command delivered by set() and once with every command delivered through a followed getter");
        rep.floor("assign_cases", 1);
        rep.floor("assign_cases/all-by-set", 1);
        rep.floor("assign_cases/all-by-followed-getter", 1);
        rep.floor("assign_cases/mixed", 1);
    }
    // ---- 2. axles 1..=6: every slot as the holder of the newest command x kind, others random
    {
        let reps = args.pick(40, 2000);
        let mut idx = 0u64;
        for _ in 0..reps {
            for n in 1..=6usize {
                for slot in 0..2 * n {
                    for first_kind in 0..3usize {
                        let case = idx;
                        idx += 1;
                        if !args.mine("axle", case) {
                            continue;
                        }
                        let mut rng = Rng::new(args.seed, 1302, case);
                        let mut first = random_first(&mut rng, 2 * n);
                        // make `slot` the newest
                        let top = first.iter().flatten().count() as u32;
                        if first[slot].is_none() {
                            first[slot] = Some(top);
                        } else {
                            let old = first[slot].unwrap();
                            for r in first.iter_mut().flatten() {
                                if *r > old {
                                    *r -= 1;
                                }
                            }
                            first[slot] = Some(top - 1);
                        }
                        let conn = conn_for(&mut rng, &first);
                        let mode = *rng.pick(&[0u64, 0, 1, 2, 2]);
                        let follow = follow_mask(&mut rng, 2 * n, mode);
                        let (extreme, premove, move_kind) = (rng.chance(0.3), *rng.pick(&[0u8, 0, 0, 0, 1, 2]), rng.usize(4));
                        let plan = Plan { dev: DevKind::Axle(n), conn, first, first_kind, rounds: 1 + rng.usize(8), follow, extreme, premove, move_kind };
                        let mut ctx = Ctx { rep: &mut rep, sub: "axle", case };
                        single_case(&mut ctx, &mut rng, &plan);
                    }
                }
            }
        }
        rep.exhaustive("Axle<1..=6> x slot holding the newest command (own / external of each terminal) x kind of that command");
    }
    // ---- 3. random single devices
    for case in args.cases("random", 100_000, 10_000_000) {
        let mut rng = Rng::new(args.seed, 1303, case);
        let dev = random_dev(&mut rng);
        let first = random_first(&mut rng, 2 * dev.terms());
        let conn = conn_for(&mut rng, &first);
        let mode = *rng.pick(&[0u64, 0, 1, 2, 2]);
        let follow = follow_mask(&mut rng, first.len(), mode);
        let (extreme, premove, move_kind) = (rng.chance(0.3), *rng.pick(&[0u8, 0, 0, 0, 1, 2]), rng.usize(4));
        let plan = Plan { dev, conn, first, first_kind: rng.usize(3), rounds: 1 + rng.usize(8), follow, extreme, premove, move_kind };
        let mut ctx = Ctx { rep: &mut rep, sub: "random", case };
        single_case(&mut ctx, &mut rng, &plan);
    }
    // ---- 4. chains
    for case in args.cases("chain", 100_000, 10_000_000) {
        let mut ctx = Ctx { rep: &mut rep, sub: "chain", case };
        chain_case(&mut ctx, args.seed);
    }
    // ---- 5. differential
    for case in args.cases("differential", 32_000, 3_200_000) {
        let mut ctx = Ctx { rep: &mut rep, sub: "differential", case };
        diff_case(&mut ctx, args.seed);
    }
    // ---- coverage floors
    if args.only.is_none() {
        // which slot held the newest command: every slot of every device
        let mut tags: Vec<(String, usize)> = vec![("Invert".into(), 2), ("GearTrain/with_ratio_raw".into(), 2), ("GearTrain/with_ratio".into(), 2)];
        for g in 2..=6 {
            tags.push((format!("GearTrain/new[{}]", g), 2));
        }
        for n in 1..=6 {
            tags.push((format!("Axle<{}>", n), n));
        }
        for (tag, n) in &tags {
            for s in 0..2 * n {
                rep.floor(&format!("newest_at/{}/{}", tag, slot_name(s)), 20);
                // ... and the same with that newest command delivered through a followed getter
                rep.floor(&format!("newest_followed_at/{}/{}", tag, slot_name(s)), 10);
            }
            if tag.starts_with("GearTrain") {
                // every constructor driven in both directions
                for route in ["1->2", "2->1", "same-side"] {
                    rep.floor(&format!("reads_checked/{}/{}", tag, route), 200);
                }
                for route in ["1->2", "2->1"] {
                    rep.floor(&format!("chain_gear_crossed/{}/{}", tag, route), 200);
                }
            }
        }
        for fam in ["Invert", "GearTrain", "Axle"] {
            for site in ["device-terminal", "external-terminal"] {
                for what in ["newest-of-all", "older-than-present", "getter-absent"] {
                    rep.floor(&format!("followed/{}/{}/{}", fam, site, what), 300);
                }
            }
            rep.floor(&format!("delivered/{}/follow", fam), 1000);
            rep.floor(&format!("delivered/{}/set", fam), 1000);
        }
        for dir in ["forward", "backward"] {
            for slot in ["external", "own-slot"] {
                for how in ["followed-getter", "set"] {
                    rep.floor(&format!("chain_inject/{}/{}/{}", dir, slot, how), 500);
                }
            }
        }
        // ---- stamps from the whole i64 range; devices moved after they accumulated state
        for fam in ["Invert", "GearTrain", "Axle", "chain"] {
            rep.floor(&format!("extreme_stamp_cases/{}", fam), 1000);
        }
        for fam in ["Invert", "GearTrain", "Axle"] {
            rep.floor(&format!("extreme_pair_beyond_2^63/{}", fam), 300);
            rep.floor(&format!("moved_after_update/{}", fam), 500);
            rep.floor(&format!("command_issued_before_move/{}", fam), 200);
            rep.floor(&format!("chain_moved_after_update/{}", fam), 1000);
        }
        for fam in ["Invert", "GearTrain"] {
            for side in [1, 2] {
                rep.floor(&format!("extreme_pair_beyond_2^63/{}/newer-on-side-{}", fam, side), 100);
            }
        }
        rep.floor("extreme_stamp_at_i64_limit_present", 100);
        rep.floor("extreme_chain_injection_beyond_2^63_after_previous", 200);
        for (tag, _) in &tags {
            for mv in MOVES {
                rep.floor(&format!("moved_after_update/{}/{}", tag, mv), 10);
            }
        }
        rep.floor("chain_inner_follower/older-command", 500);
        rep.floor("chain_inner_follower/absent", 500);
        for k in KIND_NAMES {
            rep.floor(&format!("newest_kind/{}", k), 1000);
        }
        for r in ["reads_checked/Invert/across", "reads_checked/Invert/same-side", "reads_checked/GearTrain/1->2", "reads_checked/GearTrain/2->1", "reads_checked/GearTrain/same-side", "reads_checked/Axle/axle"] {
            rep.floor(r, 1000);
        }
        rep.floor("rounds_without_new_command(re-update)", 500);
        rep.floor("rounds_checked/round7", 500);
        for n in 1..=5 {
            for dir in ["forward", "backward"] {
                rep.floor(&format!("chain_far_end_checked/len{}/{}", n, dir), 1000);
            }
        }
        rep.floor("chain_inject/external", 1000);
        rep.floor("chain_inject/own-slot", 1000);
        for m in DIFF_MODES {
            rep.floor(&format!("differential_updates/{}", m), 1000);
            rep.floor(&format!("differential_update_wrote_states/{}", m), 100);
        }
        rep.floor("differential_updates_with_command_on_device_terminal", 1000);
        rep.floor("cases_completed/chain", args.pick(100_000, 10_000_000));
        rep.floor("cases_completed/differential", args.pick(32_000, 3_200_000));
    }
    rep.finish(&args);
}
