//! Minimal JSON value + serializer (no external crates are needed by the harness).
use std::collections::BTreeMap;
#[derive(Clone, Debug)]
pub enum Json {
    Null,
    Bool(bool),
    Int(i128),
    Num(f64),
    Str(String),
    Arr(Vec<Json>),
    Obj(BTreeMap<String, Json>),
}
impl Json {
    pub fn obj() -> Json {
        Json::Obj(BTreeMap::new())
    }
    pub fn set(&mut self, k: &str, v: Json) -> &mut Self {
        if let Json::Obj(m) = self {
            m.insert(k.to_string(), v);
        }
        self
    }
    pub fn s(v: impl Into<String>) -> Json {
        Json::Str(v.into())
    }
    pub fn write(&self, out: &mut String) {
        match self {
            Json::Null => out.push_str("null"),
            Json::Bool(b) => out.push_str(if *b { "true" } else { "false" }),
            Json::Int(i) => out.push_str(&i.to_string()),
            Json::Num(n) => {
                if n.is_finite() {
                    out.push_str(&format!("{:e}", n));
                } else {
                    out.push_str(&format!("\"{}\"", n));
                }
            }
            Json::Str(s) => {
                out.push('"');
                for c in s.chars() {
                    match c {
                        '"' => out.push_str("\\\""),
                        '\\' => out.push_str("\\\\"),
                        '\n' => out.push_str("\\n"),
                        '\r' => out.push_str("\\r"),
                        '\t' => out.push_str("\\t"),
                        c if (c as u32) < 0x20 => out.push_str(&format!("\\u{:04x}", c as u32)),
                        c => out.push(c),
                    }
                }
                out.push('"');
            }
            Json::Arr(a) => {
                out.push('[');
                for (i, v) in a.iter().enumerate() {
                    if i > 0 {
                        out.push(',');
                    }
                    v.write(out);
                }
                out.push(']');
            }
            Json::Obj(m) => {
                out.push('{');
                for (i, (k, v)) in m.iter().enumerate() {
                    if i > 0 {
                        out.push(',');
                    }
                    Json::Str(k.clone()).write(out);
                    out.push(':');
                    v.write(out);
                }
                out.push('}');
            }
        }
    }
    pub fn to_string(&self) -> String {
        let mut s = String::new();
        self.write(&mut s);
        s
    }
}
