//! Shared by C06/C07: motion-profile case generator and recovery of the phase boundaries through the
//! public API only (bisection of get_piece, whose monotonicity is monitored separately).
use crate::{catch, Rng};
use rrtk::*;
#[derive(Clone, Debug)]
pub struct MpCase {
    pub start: State,
    pub end: State,
    pub max_vel: f32,
    pub max_acc: f32,
    /// generated so that displacement comfortably exceeds accel+decel distance and speeds are inside the limit
    pub comfortable: bool,
}
pub fn piece_rank(p: MotionProfilePiece) -> u8 {
    match p {
        MotionProfilePiece::BeforeStart => 0,
        MotionProfilePiece::InitialAcceleration => 1,
        MotionProfilePiece::ConstantVelocity => 2,
        MotionProfilePiece::EndAcceleration => 3,
        MotionProfilePiece::Complete => 4,
    }
}
pub fn gen_case(rng: &mut Rng, case: u64) -> MpCase {
    let max_vel = rng.log_uniform(1e-2, 1e3) as f32;
    let max_acc = rng.log_uniform(1e-2, 1e3) as f32;
    let style = case % 5;
    let dir = rng.sign();
    // speeds inside the limit by construction: max_vel * u with |u| <= 1 (the f32 product cannot exceed max_vel)
    let u0 = match rng.below(4) { 0 => 0.0, 1 => 1.0, _ => rng.uniform(-1.0, 1.0) } as f32;
    let u1 = match rng.below(6) { 0 | 1 => 0.0, 2 => -(u0 as f64), 3 => u0 as f64, _ => rng.uniform(-1.0, 1.0) } as f32; // incl. end speed = -/+ start speed exactly
    let mut v0 = max_vel * u0;
    let mut v1 = max_vel * u1;
    // non-zero but tiny end velocity / acceleration still decide the end command's kind
    let tiny = |rng: &mut Rng| if rng.chance(0.3) { (rng.sign() as f32) * f32::from_bits(1 + rng.below(0x7F_FFFF) as u32) } else { (rng.sign() * rng.log_uniform(1e-12, 2e-7)) as f32 }; // incl. subnormals
    let end_acc = if rng.chance(0.3) { if rng.chance(0.2) { tiny(rng) } else { rng.moderate_nz(1e2) } } else { 0.0 };
    if rng.chance(0.05) { v1 = tiny(rng); }
    let start_acc = if rng.chance(0.3) { rng.moderate(1e2) } else { 0.0 };
    // distances in the direction of travel (f64), with v measured along dir
    let (mv, ma) = (max_vel as f64, max_acc as f64);
    let (a0, a1) = (v0 as f64 * dir, v1 as f64 * dir);
    let d_acc = (a0 + mv) / 2.0 * ((mv - a0) / ma);
    let d_dec = (mv + a1) / 2.0 * ((mv - a1) / ma);
    let need = d_acc + d_dec;
    let comfortable = style <= 2;
    let dist = match style {
        0 | 1 | 2 => 1.05 * need + 1e-3 + rng.log_uniform(1e-3, 1e4) * if rng.chance(0.5) { 1.0 } else { 0.01 },
        3 => need * rng.uniform(0.5, 1.5), // around the feasibility edge: may panic
        _ => {
            // speeds outside the limit / arbitrary geometry: panics are an allowed outcome
            v0 = (mv * rng.uniform(-2.5, 1.5) * dir) as f32;
            if rng.chance(0.5) { v1 = (mv * rng.uniform(-1.5, 1.2) * dir) as f32; }
            rng.log_uniform(1e-3, 2e4)
        }
    };
    let dist = dist.min(1.9e4);
    // positions within +-1e4
    let p0 = rng.uniform(-1e4, 1e4 - dist.min(2e4)).max(-1e4);
    let (ps, pe) = if dir > 0.0 { (p0, (p0 + dist).min(1e4)) } else { ((p0 + dist).min(1e4), p0) };
    let comfortable = comfortable && (pe - ps).abs() >= 1.05 * need + 1e-3 - 1e-9 && {
        // re-check with the f32 positions actually used
        let d = ((pe as f32) as f64 - (ps as f32) as f64).abs();
        d >= 1.05 * need + 1e-3
    };
    if rng.chance(0.08) {
        // exact-arithmetic profiles: dyadic limits and speeds, so that accel + decel distance is exact in f32 and
        // the displacement can be placed exactly ON the feasibility edge (zero-length cruise) or a few ulps
        // either side of it (a constructor panic is an allowed outcome there)
        let mv = *rng.pick(&[0.5f32, 1.0, 2.0, 4.0]);
        let ma = *rng.pick(&[0.5f32, 1.0, 2.0, 4.0]);
        let us = [0.0f32, 0.25, -0.25, 0.5, -0.5, 1.0, -1.0];
        let dirf = dir as f32;
        let (w0, w1) = (mv * *rng.pick(&us), mv * *rng.pick(&us));
        let (a0, a1) = (w0 * dirf, w1 * dirf); // along the direction of travel
        let need = (a0 + mv) / 2.0 * ((mv - a0) / ma) + (mv + a1) / 2.0 * ((mv - a1) / ma);
        let p0 = rng.range_i64(-8, 8) as f32;
        let mut pe = p0 + dirf * need;
        for _ in 0..rng.below(4) { pe = if rng.chance(0.5) { pe.next_up() } else { pe.next_down() }; }
        if !pe.is_finite() { pe = p0 + dirf * need; }
        return MpCase { start: State::new_raw(p0, w0, start_acc), end: State::new_raw(pe, w1, end_acc), max_vel: mv, max_acc: ma, comfortable: false };
    }
    if rng.chance(0.02) {
        // degenerate: zero displacement at cruise speed => a profile of zero duration (t1 = t2 = t3 = 0) is accepted
        // (with both speeds at -max_vel the unchanged constructor, whose tie-break is "forward", accepts a there-and-back
        // move of duration 4*max_vel/max_acc; a constructor that breaks the tie by the start velocity gives zero duration)
        let p = rng.moderate(1e4);
        let v = if rng.chance(0.5) { max_vel } else { -max_vel };
        return MpCase { start: State::new_raw(p, v, start_acc), end: State::new_raw(p, v, end_acc), max_vel, max_acc, comfortable: false };
    }
    MpCase {
        start: State::new_raw(ps as f32, v0, start_acc),
        end: State::new_raw(pe as f32, v1, end_acc),
        max_vel,
        max_acc,
        comfortable,
    }
}
pub fn build(c: &MpCase) -> Result<MotionProfile, String> {
    catch(|| {
        MotionProfile::new(
            c.start,
            c.end,
            Quantity::new(c.max_vel, MILLIMETER_PER_SECOND),
            Quantity::new(c.max_acc, MILLIMETER_PER_SECOND_SQUARED),
        )
    })
}
/// smallest t in [0, 2^62] with rank(get_piece(t)) >= rank, assuming pieces are ordered in t
pub fn boundary(mp: &MotionProfile, rank: u8) -> i64 {
    let (mut lo, mut hi) = (0i64, 1i64 << 62);
    if piece_rank(mp.get_piece(Time(lo))) >= rank {
        return 0;
    }
    // invariant: rank(lo) < rank <= rank(hi)  (rank(hi) assumed; checked by caller via Complete at 2^62)
    while hi - lo > 1 {
        let mid = lo + (hi - lo) / 2;
        if piece_rank(mp.get_piece(Time(mid))) >= rank {
            hi = mid;
        } else {
            lo = mid;
        }
    }
    hi
}
pub fn boundaries(mp: &MotionProfile) -> [i64; 3] {
    [boundary(mp, 2), boundary(mp, 3), boundary(mp, 4)]
}
/// query times: extremes, around zero, around each boundary, and log-spread random times in [0, 2*t3]
pub fn query_times(rng: &mut Rng, b: &[i64; 3], n_random: usize) -> Vec<i64> {
    let mut ts = vec![i64::MIN, i64::MIN + 1, -(1i64 << 40), -1, 0, 1, 2, i64::MAX, i64::MAX - 1, 1i64 << 62];
    for x in b {
        for d in [-2i64, -1, 0, 1, 2] {
            ts.push(x.saturating_add(d));
        }
    }
    let t3 = b[2].max(2);
    for _ in 0..n_random {
        let t = match rng.below(4) {
            0 => rng.range_i64(0, t3.saturating_mul(2)),
            1 => rng.log_uniform(1.0, t3 as f64 * 2.0) as i64,
            2 => {
                let k = rng.usize(3);
                let (lo, hi) = (if k == 0 { 0 } else { b[k - 1] }, b[k]);
                if hi > lo { rng.range_i64(lo, hi) } else { lo }
            }
            _ => rng.range_i64(0, t3),
        };
        ts.push(t);
    }
    ts
}
