//! Scripted getters / time getters / recording settables: the fault injectors and observers that
//! sit at rrtk's public trait boundary.
use crate::{same, Out, E};
use rrtk::*;
use std::cell::RefCell;
use std::rc::Rc;
/// Error injected for code `e`: 0 is the crate's own `Error::FromNone` (what a `NoneToError` upstream
/// would produce), anything else the user error `Error::Other(e)`.
pub fn err_code(e: u8) -> Error<E> {
    if e == 0 {
        Error::FromNone
    } else {
        Error::Other(e)
    }
}
/// One input event of a history.
#[derive(Clone, Copy, Debug, PartialEq)]
pub enum Ev<T> {
    Some(i64, T),
    None,
    Err(u8),
}
impl<T: Clone> Ev<T> {
    pub fn out(&self) -> Out<T> {
        match self {
            Ev::Some(t, v) => Ok(Some(Datum::new(Time(*t), v.clone()))),
            Ev::None => Ok(None),
            Ev::Err(e) => Err(err_code(*e)),
        }
    }
    pub fn kind(&self) -> u8 {
        match self {
            Ev::Some(..) => 0,
            Ev::None => 1,
            Ev::Err(1) => 2,
            Ev::Err(_) => 3,
        }
    }
}
/// A getter whose current output is whatever the harness last put there.
pub struct Cell<T: Clone> {
    pub out: Out<T>,
    pub gets: std::cell::Cell<u64>,
    pub updates: u64,
    /// "read-once" behaviour: when set, every get() after the first one (since the last `set`) returns
    /// this instead of `out` (a mailbox that is emptied by reading, a sample that expires between polls)
    pub then: Option<Out<T>>,
    pub polled: std::cell::Cell<bool>,
}
impl<T: Clone> Getter<T, E> for Cell<T> {
    fn get(&self) -> Out<T> {
        self.gets.set(self.gets.get() + 1);
        if let Some(t) = &self.then {
            if self.polled.replace(true) {
                return t.clone();
            }
        }
        self.out.clone()
    }
}
impl<T: Clone> Updatable<E> for Cell<T> {
    fn update(&mut self) -> NothingOrError<E> {
        self.updates += 1;
        Ok(())
    }
}
pub struct Src<T: Clone>(pub Rc<RefCell<Cell<T>>>);
impl<T: Clone> Clone for Src<T> {
    fn clone(&self) -> Self {
        Src(self.0.clone())
    }
}
impl<T: Clone + 'static> Src<T> {
    pub fn new() -> Self {
        Src(Rc::new(RefCell::new(Cell {
            out: Ok(None),
            gets: std::cell::Cell::new(0),
            updates: 0,
            then: None,
            polled: std::cell::Cell::new(false),
        })))
    }
    /// first poll returns `first`, every later poll `then` (until the next set)
    pub fn set_once(&self, first: Out<T>, then: Out<T>) {
        let mut c = self.0.borrow_mut();
        c.out = first;
        c.then = Some(then);
        c.polled.set(false);
    }
    pub fn with(out: Out<T>) -> Self {
        let s = Self::new();
        s.set(out);
        s
    }
    pub fn set(&self, out: Out<T>) {
        let mut c = self.0.borrow_mut();
        c.out = out;
        c.then = None;
        c.polled.set(false);
    }
    pub fn ev(&self, ev: &Ev<T>) {
        self.set(ev.out());
    }
    pub fn some(&self, t: i64, v: T) {
        self.set(Ok(Some(Datum::new(Time(t), v))));
    }
    pub fn none(&self) {
        self.set(Ok(None));
    }
    pub fn err(&self, e: u8) {
        self.set(Err(err_code(e)));
    }
    /// `Reference<dyn Getter>` by unsizing coercion (never through `to_dyn!`, see DESIGN §0).
    pub fn dynref(&self) -> Reference<dyn Getter<T, E>> {
        let rc: Rc<RefCell<dyn Getter<T, E>>> = self.0.clone();
        Reference::from_rc_ref_cell(rc)
    }
    pub fn typed(&self) -> Reference<Cell<T>> {
        Reference::from_rc_ref_cell(self.0.clone())
    }
    pub fn gets(&self) -> u64 {
        self.0.borrow().gets.get()
    }
}
/// Scripted time getter.
pub struct TCell {
    pub out: TimeOutput<E>,
    pub gets: std::cell::Cell<u64>,
    pub updates: u64,
}
impl TimeGetter<E> for TCell {
    fn get(&self) -> TimeOutput<E> {
        self.gets.set(self.gets.get() + 1);
        self.out
    }
}
impl Updatable<E> for TCell {
    fn update(&mut self) -> NothingOrError<E> {
        self.updates += 1;
        Ok(())
    }
}
#[derive(Clone)]
pub struct TSrc(pub Rc<RefCell<TCell>>);
impl TSrc {
    pub fn new(t: i64) -> Self {
        TSrc(Rc::new(RefCell::new(TCell {
            out: Ok(Time(t)),
            gets: std::cell::Cell::new(0),
            updates: 0,
        })))
    }
    pub fn set(&self, t: i64) {
        self.0.borrow_mut().out = Ok(Time(t));
    }
    pub fn err(&self, e: u8) {
        self.0.borrow_mut().out = Err(Error::Other(e));
    }
    pub fn dynref(&self) -> Reference<dyn TimeGetter<E>> {
        let rc: Rc<RefCell<dyn TimeGetter<E>>> = self.0.clone();
        Reference::from_rc_ref_cell(rc)
    }
    pub fn typed(&self) -> Reference<TCell> {
        Reference::from_rc_ref_cell(self.0.clone())
    }
    pub fn gets(&self) -> u64 {
        self.0.borrow().gets.get()
    }
}
/// A settable that records every `impl_set` call and every `update`, with scripted accept/reject.
pub struct RecSettable<S: Clone> {
    data: SettableData<S, E>,
    /// every value handed to impl_set, with whether it was accepted
    pub log: Vec<(S, bool)>,
    /// event log interleaving sets and updates: 's' / 'u'
    pub order: Vec<char>,
    /// reject (with Error::Other(reject_with)) while true
    pub reject: bool,
    pub reject_with: u8,
    pub updates: u64,
    /// whether update() calls update_following_data (as the trait docs require for following)
    pub follows_in_update: bool,
    /// scripted error from update() itself (after following)
    pub update_err: Option<u8>,
}
impl<S: Clone> RecSettable<S> {
    pub fn new() -> Self {
        RecSettable {
            data: SettableData::new(),
            log: Vec::new(),
            order: Vec::new(),
            reject: false,
            reject_with: 9,
            updates: 0,
            follows_in_update: true,
            update_err: None,
        }
    }
}
impl<S: Clone> Settable<S, E> for RecSettable<S> {
    fn impl_set(&mut self, value: S) -> NothingOrError<E> {
        self.order.push('s');
        if self.reject {
            self.log.push((value, false));
            Err(Error::Other(self.reject_with))
        } else {
            self.log.push((value, true));
            Ok(())
        }
    }
    fn get_settable_data_ref(&self) -> &SettableData<S, E> {
        &self.data
    }
    fn get_settable_data_mut(&mut self) -> &mut SettableData<S, E> {
        &mut self.data
    }
}
impl<S: Clone> Updatable<E> for RecSettable<S> {
    fn update(&mut self) -> NothingOrError<E> {
        self.updates += 1;
        self.order.push('u');
        if self.follows_in_update {
            self.update_following_data()?;
        }
        match self.update_err {
            Some(e) => Err(Error::Other(e)),
            None => Ok(()),
        }
    }
}
// ---- comparison of outputs on canonical bits -------------------------------------------------
pub fn qsame(a: &Quantity, b: &Quantity) -> bool {
    same(a.value, b.value) && a.unit.eq_assume_true(&b.unit)
}
pub fn fsame(a: &f32, b: &f32) -> bool {
    same(*a, *b)
}
pub fn ssame(a: &State, b: &State) -> bool {
    same(a.position, b.position)
        && same(a.velocity, b.velocity)
        && same(a.acceleration, b.acceleration)
}
pub fn csame(a: &Command, b: &Command) -> bool {
    PositionDerivative::from(*a) == PositionDerivative::from(*b) && same(f32::from(*a), f32::from(*b))
}
pub fn bsame(a: &bool, b: &bool) -> bool {
    a == b
}
/// Same category, same error, same timestamp, same value (by `veq`).
pub fn out_same<T>(a: &Out<T>, b: &Out<T>, veq: impl Fn(&T, &T) -> bool) -> bool {
    match (a, b) {
        (Err(x), Err(y)) => x == y,
        (Ok(None), Ok(None)) => true,
        (Ok(Some(x)), Ok(Some(y))) => x.time == y.time && veq(&x.value, &y.value),
        _ => false,
    }
}
pub fn cat<T>(o: &Out<T>) -> &'static str {
    match o {
        Err(_) => "err",
        Ok(None) => "none",
        Ok(Some(_)) => "some",
    }
}
pub fn rc<T>(v: T) -> Rc<RefCell<T>> {
    Rc::new(RefCell::new(v))
}
