//! Per-process report: what the monitor observed. Serialised as JSON for the python driver, which
//! merges shards, applies the known-findings file and writes the evidence file.
use crate::json::Json;
use std::collections::hash_map::DefaultHasher;
use std::collections::{BTreeMap, HashSet};
use std::hash::{Hash, Hasher};
#[derive(Clone, Debug)]
pub struct Args {
    pub seed: u64,
    pub thorough: bool,
    pub shard: u64,
    pub nshards: u64,
    pub out: Option<String>,
    /// replay: run only this sub-check / case index, verbosely
    pub only: Option<(String, u64)>,
    pub verbose: bool,
    /// multiplies thorough budgets (VERIF_SCALE), for long background sweeps
    pub scale: u64,
    /// multiplies quick budgets (set per property by the driver)
    pub qscale: u64,
}
impl Args {
    pub fn parse() -> Args {
        let mut a = Args {
            seed: 1,
            thorough: false,
            shard: 0,
            nshards: 1,
            out: None,
            only: None,
            verbose: false,
            scale: 1,
            qscale: 1,
        };
        let v: Vec<String> = std::env::args().collect();
        let mut i = 1;
        while i < v.len() {
            let nxt = |i: usize| v.get(i + 1).cloned().unwrap_or_default();
            match v[i].as_str() {
                "--seed" => {
                    a.seed = nxt(i).parse().unwrap_or(1);
                    i += 1;
                }
                "--tier" => {
                    a.thorough = nxt(i) == "thorough";
                    i += 1;
                }
                "--shard" => {
                    a.shard = nxt(i).parse().unwrap_or(0);
                    i += 1;
                }
                "--nshards" => {
                    a.nshards = nxt(i).parse().unwrap_or(1).max(1);
                    i += 1;
                }
                "--scale" => {
                    a.scale = nxt(i).parse().unwrap_or(1).max(1);
                    i += 1;
                }
                "--qscale" => {
                    a.qscale = nxt(i).parse().unwrap_or(1).max(1);
                    i += 1;
                }
                "--out" => {
                    a.out = Some(nxt(i));
                    i += 1;
                }
                "--only" => {
                    let s = nxt(i);
                    let mut it = s.rsplitn(2, ':');
                    let idx = it.next().unwrap_or("0").parse().unwrap_or(0);
                    let sub = it.next().unwrap_or("").to_string();
                    a.only = Some((sub, idx));
                    a.verbose = true;
                    i += 1;
                }
                "--verbose" => a.verbose = true,
                _ => {}
            }
            i += 1;
        }
        a
    }
    /// Case indices of sub-check `sub` handled by this shard: `i in 0..total, i % nshards == shard`.
    /// `quick`/`thorough` are the total budgets (operation counts, never wall-clock).
    pub fn cases(&self, sub: &str, quick: u64, thorough: u64) -> Vec<u64> {
        if let Some((s, idx)) = &self.only {
            return if s == sub { vec![*idx] } else { vec![] };
        }
        let total = if self.thorough {
            thorough * self.scale
        } else {
            quick * self.qscale
        };
        (0..total)
            .filter(|i| i % self.nshards == self.shard)
            .collect()
    }
    /// For exhaustive enumerations: is flat index `i` ours?
    pub fn mine(&self, sub: &str, i: u64) -> bool {
        if let Some((s, idx)) = &self.only {
            return s == sub && *idx == i;
        }
        i % self.nshards == self.shard
    }
    pub fn pick(&self, quick: u64, thorough: u64) -> u64 {
        if self.thorough {
            thorough
        } else {
            quick
        }
    }
}
pub struct Violation {
    pub sig: String,
    pub sub: String,
    pub case: u64,
    pub detail: String,
}
pub struct Report {
    pub property: &'static str,
    pub evaluations: u64,
    pub distinct: HashSet<u64>,
    pub tallies: BTreeMap<String, u64>,
    pub maxima: BTreeMap<String, f64>,
    pub samples: BTreeMap<String, Vec<String>>,
    pub violations: Vec<Violation>,
    pub violation_count: u64,
    pub sig_counts: BTreeMap<String, u64>,
    pub floors: BTreeMap<String, u64>,
    pub exhaustive: Vec<String>,
    pub verbose: bool,
}
impl Report {
    pub fn new(property: &'static str, args: &Args) -> Report {
        crate::util::silence_panics();
        start_no_progress_watchdog(property);
        Report {
            property,
            evaluations: 0,
            distinct: HashSet::new(),
            tallies: BTreeMap::new(),
            maxima: BTreeMap::new(),
            samples: BTreeMap::new(),
            violations: Vec::new(),
            violation_count: 0,
            sig_counts: BTreeMap::new(),
            floors: BTreeMap::new(),
            exhaustive: Vec::new(),
            verbose: args.verbose,
        }
    }
    #[inline]
    pub fn eval(&mut self) {
        self.evaluations += 1;
        HEARTBEAT.fetch_add(1, std::sync::atomic::Ordering::Relaxed);
    }
    #[inline]
    pub fn evals(&mut self, n: u64) {
        self.evaluations += n;
        HEARTBEAT.fetch_add(1, std::sync::atomic::Ordering::Relaxed);
    }
    /// Record a distinct non-trivial case key (hashed; the driver unions the hashes over shards).
    #[inline]
    pub fn distinct<K: Hash>(&mut self, key: K) {
        if self.distinct.len() < 2_000_000 {
            let mut h = DefaultHasher::new();
            key.hash(&mut h);
            self.distinct.insert(h.finish());
        }
    }
    #[inline]
    pub fn tally(&mut self, k: &str) {
        self.tally_n(k, 1);
    }
    pub fn tally_n(&mut self, k: &str, n: u64) {
        if let Some(v) = self.tallies.get_mut(k) {
            *v += n;
        } else {
            self.tallies.insert(k.to_string(), n);
        }
    }
    pub fn max(&mut self, k: &str, v: f64) {
        if v.is_nan() {
            return;
        }
        match self.maxima.get_mut(k) {
            Some(m) => {
                if v > *m {
                    *m = v
                }
            }
            None => {
                self.maxima.insert(k.to_string(), v);
            }
        }
    }
    /// Coverage floor on a (merged) tally: a run that observed fewer is INCONCLUSIVE, not green.
    pub fn floor(&mut self, tally: &str, min: u64) {
        self.floors.insert(tally.to_string(), min);
        self.tallies.entry(tally.to_string()).or_insert(0);
    }
    pub fn exhaustive(&mut self, what: &str) {
        self.exhaustive.push(what.to_string());
    }
    pub fn want_sample(&self, sub: &str) -> bool {
        self.samples.get(sub).map(|v| v.len()).unwrap_or(0) < 2
    }
    pub fn sample(&mut self, sub: &str, s: String) {
        let v = self.samples.entry(sub.to_string()).or_default();
        if v.len() < 2 {
            let mut s = s;
            if s.len() > 1500 {
                s.truncate(1500);
                s.push_str("...");
            }
            v.push(s);
        }
    }
    /// Record a violation. `sig` identifies the failing clause / call site / input class (it is what
    /// known_findings.json is matched against); `detail` carries the explicit case, observed and
    /// expected values.
    pub fn violation(&mut self, sig: &str, sub: &str, case: u64, detail: String) {
        self.violation_count += 1;
        let c = self.sig_counts.entry(sig.to_string()).or_insert(0);
        *c += 1;
        if self.verbose {
            eprintln!("VIOLATION-DETAIL sig={} sub={} case={} :: {}", sig, sub, case, detail);
        }
        if *c <= 3 && self.violations.len() < 60 {
            let mut detail = detail;
            if detail.len() > 4000 {
                detail.truncate(4000);
                detail.push_str("...");
            }
            self.violations.push(Violation {
                sig: sig.to_string(),
                sub: sub.to_string(),
                case,
                detail,
            });
        }
    }
    pub fn to_json(&self) -> Json {
        let mut j = Json::obj();
        j.set("property", Json::s(self.property));
        j.set("evaluations", Json::Int(self.evaluations as i128));
        let mut d: Vec<u64> = self.distinct.iter().cloned().collect();
        d.sort();
        j.set(
            "distinct_hashes",
            Json::Arr(d.iter().map(|h| Json::s(format!("{:x}", h))).collect()),
        );
        let mut t = Json::obj();
        for (k, v) in &self.tallies {
            t.set(k, Json::Int(*v as i128));
        }
        j.set("tallies", t);
        let mut m = Json::obj();
        for (k, v) in &self.maxima {
            m.set(k, Json::Num(*v));
        }
        j.set("maxima", m);
        let mut s = Json::obj();
        for (k, v) in &self.samples {
            s.set(k, Json::Arr(v.iter().map(|x| Json::s(x.clone())).collect()));
        }
        j.set("samples", s);
        let mut f = Json::obj();
        for (k, v) in &self.floors {
            f.set(k, Json::Int(*v as i128));
        }
        j.set("floors", f);
        j.set(
            "exhaustive",
            Json::Arr(self.exhaustive.iter().map(|x| Json::s(x.clone())).collect()),
        );
        j.set("violation_count", Json::Int(self.violation_count as i128));
        let mut sc = Json::obj();
        for (k, v) in &self.sig_counts {
            sc.set(k, Json::Int(*v as i128));
        }
        j.set("sig_counts", sc);
        j.set(
            "violations",
            Json::Arr(
                self.violations
                    .iter()
                    .map(|v| {
                        let mut o = Json::obj();
                        o.set("sig", Json::s(v.sig.clone()));
                        o.set("sub", Json::s(v.sub.clone()));
                        o.set("case", Json::Int(v.case as i128));
                        o.set("detail", Json::s(v.detail.clone()));
                        o
                    })
                    .collect(),
            ),
        );
        j
    }
    /// Write the report and exit 0 (violations are carried in the JSON, not in the exit code; a
    /// non-zero exit of a monitor process means the monitor itself broke).
    pub fn finish(self, args: &Args) -> ! {
        let s = self.to_json().to_string();
        match &args.out {
            Some(p) => std::fs::write(p, s).expect("write report"),
            None => println!("{}", s),
        }
        std::process::exit(0)
    }
}

/// Bumped by every `Report::eval`. One evaluation takes microseconds to milliseconds; a monitor whose counter does not move
/// for VERIF_NO_PROGRESS_S seconds (default 300: five to six orders of magnitude of head-room, so a loaded machine cannot
/// cause it) is stuck inside ONE call of the code under test - a call that does not return. The process then says so and
/// exits with code 3; the driver reports `<ID>/call-does-not-return`. Not armed under Miri.
pub static HEARTBEAT: std::sync::atomic::AtomicU64 = std::sync::atomic::AtomicU64::new(0);
fn start_no_progress_watchdog(property: &'static str) {
    if cfg!(miri) {
        return;
    }
    static STARTED: std::sync::atomic::AtomicBool = std::sync::atomic::AtomicBool::new(false);
    if STARTED.swap(true, std::sync::atomic::Ordering::SeqCst) {
        return;
    }
    let limit: u64 = std::env::var("VERIF_NO_PROGRESS_S").ok().and_then(|s| s.parse().ok()).unwrap_or(300);
    let _ = std::thread::Builder::new().name("no-progress-watchdog".into()).spawn(move || {
        let (mut last, mut idle) = (u64::MAX, 0u64);
        loop {
            std::thread::sleep(std::time::Duration::from_secs(5));
            let h = HEARTBEAT.load(std::sync::atomic::Ordering::Relaxed);
            if h == last { idle += 5; } else { idle = 0; last = h; }
            if idle >= limit {
                eprintln!("NO-PROGRESS property={} evaluations_so_far={} idle_seconds={}: one call of the code under test has not returned", property, h, idle);
                std::process::exit(3);
            }
        }
    });
}
