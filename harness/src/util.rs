//! Panic capture and f32 comparison helpers.
use std::panic::{catch_unwind, AssertUnwindSafe};
use std::sync::Once;
static HOOK: Once = Once::new();
thread_local! {
    /// nesting depth of `catch`: panics inside are an observed outcome (silent), panics outside are
    /// reported on stderr so the driver can show where the monitor process died
    static DEPTH: std::cell::Cell<u32> = const { std::cell::Cell::new(0) };
}
/// Install a silent panic hook (panics are an *observed outcome* in these monitors).
pub fn silence_panics() {
    HOOK.call_once(|| {
        if std::env::var_os("VERIF_PANIC_VERBOSE").is_none() {
            std::panic::set_hook(Box::new(|info| {
                if DEPTH.with(|d| d.get()) == 0 {
                    eprintln!("UNCAUGHT-PANIC {}", info);
                }
            }));
        }
    });
}
/// Run `f`, returning Err(message) if it unwound.
pub fn catch<T>(f: impl FnOnce() -> T) -> Result<T, String> {
    DEPTH.with(|d| d.set(d.get() + 1));
    let r = catch_unwind(AssertUnwindSafe(f));
    DEPTH.with(|d| d.set(d.get().saturating_sub(1)));
    match r {
        Ok(v) => Ok(v),
        Err(p) => {
            let msg = if let Some(s) = p.downcast_ref::<&str>() {
                s.to_string()
            } else if let Some(s) = p.downcast_ref::<String>() {
                s.clone()
            } else {
                "<non-string panic>".to_string()
            };
            Err(msg)
        }
    }
}
/// Canonical bits: -0 == +0, all NaNs equal ("compared as f32 values").
#[inline]
pub fn cbits(x: f32) -> u32 {
    if x.is_nan() {
        0x7fc0_0000
    } else if x == 0.0 {
        0
    } else {
        x.to_bits()
    }
}
#[inline]
/// Unit equality that also compiles with dimension checking compiled out (there `Unit` is zero-sized, has no
/// `PartialEq`, and every unit "assumes ok": the comparison is then vacuously true).
pub fn ueq(a: rrtk::Unit, b: rrtk::Unit) -> bool {
    a.eq_assume_true(&b)
}
/// whether dimension checking is compiled into this build of the crate
pub fn dim_checked() -> bool {
    std::mem::size_of::<rrtk::Unit>() != 0
}
pub fn same(a: f32, b: f32) -> bool {
    cbits(a) == cbits(b)
}
fn ordered(x: f32) -> i64 {
    let b = x.to_bits() as i64;
    if b & 0x8000_0000 != 0 {
        -(b & 0x7fff_ffff)
    } else {
        b
    }
}
/// Distance in units in the last place between two f32 (NaN vs non-NaN = huge).
pub fn ulp_dist(a: f32, b: f32) -> u64 {
    if a.is_nan() || b.is_nan() {
        return if a.is_nan() && b.is_nan() { 0 } else { u64::MAX };
    }
    (ordered(a) - ordered(b)).unsigned_abs()
}
/// f32 unit roundoff.
pub const U: f64 = 5.960464477539063e-8; // 2^-24
/// Is `obs` within `bound` of the f64 reference? Returns (ok, |err|/bound).
/// A non-finite observation is accepted only when the reference is non-finite too or beyond the
/// f32 range.
pub fn within(obs: f32, reference: f64, bound: f64) -> (bool, f64) {
    let bound = bound.abs() + 1e-37;
    if !obs.is_finite() || !reference.is_finite() {
        let ok = (obs.is_nan() && reference.is_nan())
            || (!reference.is_finite() && !obs.is_finite())
            || (obs.is_infinite() && reference.abs() > 3.0e38)
            || (obs.is_infinite() && reference.abs() + bound > 3.4e38);
        return (ok, if ok { 0.0 } else { f64::INFINITY });
    }
    let err = (obs as f64 - reference).abs();
    (err <= bound, err / bound)
}
pub fn f(x: f32) -> String {
    format!("{:e}[{:08x}]", x, x.to_bits())
}
