//! Shared by the C16 lanes: exhaustive skip-and-compact patterns of the n-ary sum / product streams
//! checked against an independent fold (first error in input order wins; present values folded
//! left to right; newest stamp). With `--cfg rrtk_verif` the scratch arrays are poisoned with 0x7F
//! bytes, so a read of an unwritten slot shows up as a huge value / timestamp instead of stale data;
//! under Miri (hooks off) the same calls make any uninitialised read a diagnostic.
use crate::{same, Rng, Src, E};
use rrtk::streams::math::{ProductStream, SumStream};
use rrtk::*;
/// per-input outcome code: 0 absent, 1 present, 2 Err(1), 3 Err(2), 4 present on the first poll and absent on
/// any later poll (a read-once input: the stream must poll every input once per get(), or at least not
/// trust a count taken in an earlier pass), 5 = Error::FromNone
pub fn digits(mut code: u64, n: usize, base: u64) -> Vec<u8> {
    let mut v = Vec::with_capacity(n);
    for _ in 0..n {
        v.push((code % base) as u8);
        code /= base;
    }
    v
}
fn feed<T: Clone + 'static>(srcs: &[Src<T>], pat: &[u8], vals: &[(i64, T)]) {
    for (i, s) in srcs.iter().enumerate() {
        match pat[i] {
            0 => s.none(),
            1 => s.some(vals[i].0, vals[i].1.clone()),
            2 => s.err(1),
            3 => s.err(2),
            4 => s.set_once(Ok(Some(Datum::new(Time(vals[i].0), vals[i].1.clone()))), Ok(None)),
            _ => s.err(0),
        }
    }
}
/// Which input's error an n-ary stream returns when several inputs fail is C02's business ("earliest
/// input first"); for C16 (memory safety) any of the injected errors is an acceptable outcome.
fn some_input_errs_with(pat: &[u8], g: &Error<E>) -> bool {
    pat.iter().any(|p| match p { 2 => *g == crate::err_code(1), 3 => *g == crate::err_code(2), 5 => *g == crate::err_code(0), _ => false })
}
/// expected outcome: Err(code) | Ok(None) | Ok(Some(indices of present inputs))
fn model(pat: &[u8]) -> Result<Vec<usize>, u8> {
    let mut present = Vec::new();
    for (i, p) in pat.iter().enumerate() {
        match p {
            0 => {}
            1 | 4 => present.push(i),
            2 => return Err(1),
            3 => return Err(2),
            _ => return Err(0),
        }
    }
    Ok(present)
}
/// every value obtainable by combining `vals` with `op` in INPUT ORDER under some parenthesization
/// ("exactly the corresponding operator in input order" fixes the operand order, not the association:
/// a right fold or a pairwise tree is as legitimate as the left fold)
pub fn parenthesizations(vals: &[f32], op: &dyn Fn(f32, f32) -> f32) -> Vec<f32> {
    let n = vals.len();
    let mut table: Vec<Vec<Vec<f32>>> = vec![vec![Vec::new(); n]; n];
    for i in 0..n { table[i][i] = vec![vals[i]]; }
    for len in 2..=n {
        for i in 0..=n - len {
            let j = i + len - 1;
            let mut acc: Vec<f32> = Vec::new();
            for k in i..j {
                for &a in &table[i][k] {
                    for &b in &table[k + 1][j] {
                        let v = op(a, b);
                        if !acc.iter().any(|x| x.to_bits() == v.to_bits()) { acc.push(v); }
                    }
                }
            }
            table[i][j] = acc;
        }
    }
    table[0][n - 1].clone()
}
fn any_association(present: &[f32], got: f32, product: bool) -> bool {
    if present.len() < 3 { return false; }
    let op: &dyn Fn(f32, f32) -> f32 = if product { &|a, b| a * b } else { &|a, b| a + b };
    parenthesizations(present, op).iter().any(|v| same(*v, got))
}
pub fn check_f32<const N: usize>(pat: &[u8], rng: &mut Rng, product: bool) -> Result<(), String> {
    let srcs: Vec<Src<f32>> = (0..N).map(|_| Src::new()).collect();
    let vals: Vec<(i64, f32)> = (0..N).map(|_| (rng.range_i64(-1_000_000, 1_000_000), rng.moderate(1e3))).collect();
    feed(&srcs, pat, &vals);
    let refs: [Reference<dyn Getter<f32, E>>; N] = core::array::from_fn(|i| srcs[i].dynref());
    let got = if product { ProductStream::new(refs).get() } else { SumStream::new(refs).get() };
    match (model(pat), got) {
        (Err(_), Err(g)) if some_input_errs_with(pat, &g) => Ok(()),
        (Ok(p), Ok(None)) if p.is_empty() => Ok(()),
        (Ok(p), Ok(Some(d))) if !p.is_empty() => {
            let mut v = vals[p[0]].1;
            let mut t = vals[p[0]].0;
            for &i in &p[1..] {
                if product { v *= vals[i].1 } else { v += vals[i].1 }
                t = t.max(vals[i].0);
            }
            let pv: Vec<f32> = p.iter().map(|&i| vals[i].1).collect();
            if d.time.0 == t && (same(v, d.value) || any_association(&pv, d.value, product)) { Ok(()) } else { Err(format!("pattern {:?} values {:?}: got ({}, {}) expected ({}, {})", pat, vals, d.time.0, crate::f(d.value), t, crate::f(v))) }
        }
        (m, g) => Err(format!("pattern {:?}: got {:?} expected {:?}", pat, g, m)),
    }
}
pub fn check_quantity<const N: usize>(pat: &[u8], rng: &mut Rng, product: bool) -> Result<(), String> {
    let srcs: Vec<Src<Quantity>> = (0..N).map(|_| Src::new()).collect();
    let vals: Vec<(i64, Quantity)> = (0..N)
        .map(|_| (rng.range_i64(-1_000_000, 1_000_000), Quantity::new(rng.moderate(1e3), if product { Unit::new(rng.range_i64(-2, 2) as i8, rng.range_i64(-2, 2) as i8) } else { MILLIMETER_PER_SECOND })))
        .collect();
    feed(&srcs, pat, &vals);
    let refs: [Reference<dyn Getter<Quantity, E>>; N] = core::array::from_fn(|i| srcs[i].dynref());
    let got = if product { ProductStream::new(refs).get() } else { SumStream::new(refs).get() };
    match (model(pat), got) {
        (Err(_), Err(g)) if some_input_errs_with(pat, &g) => Ok(()),
        (Ok(p), Ok(None)) if p.is_empty() => Ok(()),
        (Ok(p), Ok(Some(d))) if !p.is_empty() => {
            let mut v = vals[p[0]].1;
            let mut t = vals[p[0]].0;
            for &i in &p[1..] {
                if product { v *= vals[i].1 } else { v += vals[i].1 }
                t = t.max(vals[i].0);
            }
            let pv: Vec<f32> = p.iter().map(|&i| vals[i].1.value).collect();
            if v.unit.eq_assume_true(&d.value.unit) && d.time.0 == t && (same(v.value, d.value.value) || any_association(&pv, d.value.value, product)) { Ok(()) } else { Err(format!("pattern {:?} values {:?}: got {:?} expected ({}, {:?})", pat, vals, d, t, v)) }
        }
        (m, g) => Err(format!("pattern {:?}: got {:?} expected {:?}", pat, g, m)),
    }
}
/// dispatch on run-time arity 1..=10
pub fn check(n: usize, pat: &[u8], rng: &mut Rng, product: bool, quantity: bool) -> Result<(), String> {
    macro_rules! go {
        ($($n:literal),*) => { match n { $($n => if quantity { check_quantity::<$n>(pat, rng, product) } else { check_f32::<$n>(pat, rng, product) },)* _ => Err(format!("arity {} not instantiated", n)) } };
    }
    go!(1, 2, 3, 4, 5, 6, 7, 8, 9, 10)
}
