//! Deterministic PRNG (splitmix64-seeded xoshiro256**) and the stratified value generators.
#[derive(Clone)]
pub struct Rng {
    s: [u64; 4],
}
fn splitmix(x: &mut u64) -> u64 {
    *x = x.wrapping_add(0x9E3779B97F4A7C15);
    let mut z = *x;
    z = (z ^ (z >> 30)).wrapping_mul(0xBF58476D1CE4E5B9);
    z = (z ^ (z >> 27)).wrapping_mul(0x94D049BB133111EB);
    z ^ (z >> 31)
}
impl Rng {
    /// Generator for (seed, stream, index): every case of every sub-check has its own stream, so a
    /// case is reproducible from the triple alone.
    pub fn new(seed: u64, stream: u64, index: u64) -> Rng {
        let mut x = seed
            .wrapping_mul(0xD1342543DE82EF95)
            .wrapping_add(stream.wrapping_mul(0x9E3779B97F4A7C15))
            .wrapping_add(index.wrapping_mul(0xC2B2AE3D27D4EB4F))
            ^ 0x5851F42D4C957F2D;
        let s = [
            splitmix(&mut x),
            splitmix(&mut x),
            splitmix(&mut x),
            splitmix(&mut x),
        ];
        Rng { s }
    }
    pub fn next_u64(&mut self) -> u64 {
        let r = self.s[1].wrapping_mul(5).rotate_left(7).wrapping_mul(9);
        let t = self.s[1] << 17;
        self.s[2] ^= self.s[0];
        self.s[3] ^= self.s[1];
        self.s[1] ^= self.s[2];
        self.s[0] ^= self.s[3];
        self.s[2] ^= t;
        self.s[3] = self.s[3].rotate_left(45);
        r
    }
    pub fn below(&mut self, n: u64) -> u64 {
        if n == 0 {
            return 0;
        }
        self.next_u64() % n
    }
    pub fn usize(&mut self, n: usize) -> usize {
        self.below(n as u64) as usize
    }
    /// inclusive range
    pub fn range_i64(&mut self, lo: i64, hi: i64) -> i64 {
        let span = (hi as i128 - lo as i128 + 1) as u128;
        let r = ((self.next_u64() as u128) << 64 | self.next_u64() as u128) % span;
        (lo as i128 + r as i128) as i64
    }
    pub fn unit(&mut self) -> f64 {
        (self.next_u64() >> 11) as f64 / (1u64 << 53) as f64
    }
    pub fn chance(&mut self, p: f64) -> bool {
        self.unit() < p
    }
    pub fn pick<'a, T>(&mut self, xs: &'a [T]) -> &'a T {
        &xs[self.usize(xs.len())]
    }
    pub fn uniform(&mut self, lo: f64, hi: f64) -> f64 {
        lo + (hi - lo) * self.unit()
    }
    /// log-uniform magnitude in [lo, hi], lo > 0
    pub fn log_uniform(&mut self, lo: f64, hi: f64) -> f64 {
        (lo.ln() + (hi.ln() - lo.ln()) * self.unit()).exp()
    }
    pub fn sign(&mut self) -> f64 {
        if self.next_u64() & 1 == 0 {
            1.0
        } else {
            -1.0
        }
    }
    /// Finite f32 of "moderate" magnitude, stratified: zero, +-powers of two, small integers,
    /// log-uniform 1e-3..max_mag with random sign.
    pub fn moderate(&mut self, max_mag: f64) -> f32 {
        match self.below(10) {
            0 => {
                if self.chance(0.5) {
                    0.0
                } else {
                    -0.0
                }
            }
            1 => {
                let max_e = max_mag.log2().floor() as i64;
                let e = self.range_i64(-8, max_e.max(0));
                (self.sign() * (2.0f64).powi(e as i32)) as f32
            }
            2 => {
                let hi = (max_mag.min(20.0)) as i64;
                self.range_i64(-hi, hi) as f32
            }
            _ => (self.sign() * self.log_uniform(1e-3, max_mag)) as f32,
        }
    }
    /// Like moderate but never zero.
    pub fn moderate_nz(&mut self, max_mag: f64) -> f32 {
        loop {
            let x = self.moderate(max_mag);
            if x != 0.0 {
                return x;
            }
        }
    }
    /// Any finite f32 (random bit pattern, non-finite rejected), half the time moderate.
    pub fn any_finite(&mut self) -> f32 {
        if self.chance(0.5) {
            return self.moderate(1e6);
        }
        loop {
            let x = f32::from_bits(self.next_u64() as u32);
            if x.is_finite() {
                return x;
            }
        }
    }
    /// Error code for fault injection: 0 (= Error::FromNone), 1 or 2 (= Error::Other)
    pub fn err_code(&mut self) -> u8 {
        self.below(3) as u8
    }
    /// f32 from the pool of values that fast paths and special cases key on
    pub fn special(&mut self) -> f32 {
        *self.pick(&[0.0f32, -0.0, 1.0, -1.0, 2.0, 0.5, f32::EPSILON, 1.0 - f32::EPSILON / 2.0, 1.0 + f32::EPSILON, f32::MIN_POSITIVE, 1e-40, -3e-45, 16_777_216.0, 16_777_217.0 - 1.0, 1e-6, -1e-5])
    }
    /// Two distinct, increasing timestamps whose difference is far below one f32 ulp of their value in
    /// seconds (they collide when compared after conversion to f32 seconds), at magnitudes from 1 s to
    /// epoch-scale nanoseconds, either sign.
    pub fn close_stamps(&mut self) -> (i64, i64) {
        let base = match self.below(5) {
            0 => 1_000_000_000,
            1 => 3_600_000_000_000,
            2 => 1_700_000_000_000_000_000,
            3 => self.range_i64(20_000_000, 1 << 40),
            _ => self.range_i64(1 << 40, 1 << 61),
        };
        let gap = match self.below(3) { 0 => 1, 1 => self.range_i64(1, 30), _ => self.range_i64(1, (base / 40_000_000).max(2)) };
        if self.chance(0.5) { (base, base + gap) } else { (-base - gap, -base) }
    }
    /// i64 timestamp from magnitude strata (no arithmetic is implied; caller decides usage).
    pub fn stamp(&mut self) -> i64 {
        match self.below(8) {
            0 => 0,
            1 => self.range_i64(-1000, 1000),
            2 => self.range_i64(-2_000_000_000, 2_000_000_000),
            3 => self.range_i64(900_000_000_000_000, 1_100_000_000_000_000),
            4 => -self.range_i64(900_000_000_000_000, 1_100_000_000_000_000),
            5 => (1i64 << 62) + self.range_i64(-1000, 1000),
            6 => -(1i64 << 62) + self.range_i64(-1000, 1000),
            _ => self.range_i64(-(1i64 << 40), 1i64 << 40),
        }
    }
    /// i64 of a random magnitude 2^0..2^max_bits with random sign.
    pub fn mag_i64(&mut self, max_bits: u32) -> i64 {
        let bits = self.below(max_bits as u64 + 1) as u32;
        let hi = if bits == 0 { 1 } else { 1i64 << bits };
        let v = self.range_i64(hi / 2, hi);
        if self.chance(0.5) {
            v
        } else {
            -v
        }
    }
    /// Time step in ns, log-uniform between lo and hi (both > 0).
    pub fn step_ns(&mut self, lo: i64, hi: i64) -> i64 {
        let v = self.log_uniform(lo as f64, hi as f64).round() as i64;
        v.clamp(lo, hi)
    }
}
