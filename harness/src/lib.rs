//! Shared machinery of the rrtk runtime monitors: PRNG, scripted getters, recording settables,
//! panic capture, f32 helpers, report/JSON writer, argument parsing.
//! Everything observes rrtk only through its public API.
#![allow(dead_code)]
pub mod json;
pub mod mp;
pub mod nary;
pub mod report;
pub mod rng;
pub mod srcs;
pub mod util;
pub use json::Json;
pub use report::{Args, Report};
pub use rng::Rng;
pub use srcs::*;
pub use util::*;
/// Error payload type used by every monitor (`Error<E>` with two distinct values 1 and 2).
pub type E = u8;
pub type Out<T> = rrtk::Output<T, E>;
