//! Safe dummy inner objects for the wrapper probes.
#![forbid(unsafe_code)]
use rrtk::*;
pub struct DummyActuator(pub SettableData<TerminalData, u8>);
impl DummyActuator { pub fn new() -> Self { DummyActuator(SettableData::new()) } }
impl Settable<TerminalData, u8> for DummyActuator {
    fn impl_set(&mut self, _v: TerminalData) -> NothingOrError<u8> { Ok(()) }
    fn get_settable_data_ref(&self) -> &SettableData<TerminalData, u8> { &self.0 }
    fn get_settable_data_mut(&mut self) -> &mut SettableData<TerminalData, u8> { &mut self.0 }
}
impl Updatable<u8> for DummyActuator { fn update(&mut self) -> NothingOrError<u8> { Ok(()) } }
pub struct DummyMotor(pub SettableData<f32, u8>);
impl DummyMotor { pub fn new() -> Self { DummyMotor(SettableData::new()) } }
impl Settable<f32, u8> for DummyMotor {
    fn impl_set(&mut self, _v: f32) -> NothingOrError<u8> { Ok(()) }
    fn get_settable_data_ref(&self) -> &SettableData<f32, u8> { &self.0 }
    fn get_settable_data_mut(&mut self) -> &mut SettableData<f32, u8> { &mut self.0 }
}
impl Updatable<u8> for DummyMotor { fn update(&mut self) -> NothingOrError<u8> { self.update_following_data() } }
pub struct DummyEncoder;
impl Getter<State, u8> for DummyEncoder { fn get(&self) -> Output<State, u8> { Ok(None) } }
impl Updatable<u8> for DummyEncoder { fn update(&mut self) -> NothingOrError<u8> { Ok(()) } }
pub fn kvals() -> PositionDerivativeDependentPIDKValues {
    let k = PIDKValues::new(1.0, 0.0, 0.0);
    PositionDerivativeDependentPIDKValues::new(k, k, k)
}
pub type Term = core::cell::RefCell<Terminal<'static, u8>>;
/// use a terminal reference: read and write through it
pub fn touch(t: &Term) -> bool {
    let _ = Settable::<Datum<State>, u8>::set(&mut *t.borrow_mut(), Datum::new(Time(1), State::new_raw(1.0, 2.0, 3.0)));
    let r = t.borrow();
    matches!(<Terminal<u8> as Getter<State, u8>>::get(&r), Ok(Some(_)))
}
