//! Prints one line per variant the macro lists: `TO_DYN <variant> ok | panic:<msg> | alias-broken`.
use rrtk::*;
use std::panic::{catch_unwind, AssertUnwindSafe};
pub trait Tr {
    fn val(&self) -> u64;
    fn set_val(&mut self, v: u64);
}
struct P(u64);
impl Tr for P {
    fn val(&self) -> u64 { self.0 }
    fn set_val(&mut self, v: u64) { self.0 = v; }
}
fn report(name: &str, orig: Reference<P>, conv: Result<Reference<dyn Tr>, String>) {
    match conv {
        Err(m) => println!("TO_DYN {} panic:{}", name, m.replace('\n', " ")),
        Ok(d) => {
            d.borrow_mut().set_val(41);
            let a = orig.borrow().val();
            orig.borrow_mut().set_val(42);
            let b = d.borrow().val();
            let c = d.clone().borrow().val();
            if a == 41 && b == 42 && c == 42 { println!("TO_DYN {} ok", name) } else { println!("TO_DYN {} alias-broken a={} b={} c={}", name, a, b, c) }
        }
    }
}
fn guarded(f: impl FnOnce() -> Reference<dyn Tr>) -> Result<Reference<dyn Tr>, String> {
    catch_unwind(AssertUnwindSafe(f)).map_err(|p| p.downcast_ref::<&str>().map(|s| s.to_string()).or_else(|| p.downcast_ref::<String>().cloned()).unwrap_or_else(|| "?".into()))
}
fn main() {
    std::panic::set_hook(Box::new(|_| {}));
    println!("CALLER-FEATURES alloc={} std={}", cfg!(feature = "alloc"), cfg!(feature = "std"));
    {
        let r = static_reference!(P, P(0));
        let c = r.clone();
        report("Ptr", r, guarded(move || to_dyn!(Tr, c)));
    }
    {
        let r = rc_ref_cell_reference(P(0));
        let c = r.clone();
        report("RcRefCell", r, guarded(move || to_dyn!(Tr, c)));
    }
    {
        let r = static_rw_lock_reference!(P, P(0));
        let c = r.clone();
        report("PtrRwLock", r, guarded(move || to_dyn!(Tr, c)));
    }
    println!("TO_DYN-DONE");
}
